// Engine for C11 (a setter changes its field and nothing else) and C12 (wire layout), driven by fields.h.
#pragma once
#include "locale_env.h"
#include <algorithm>
#include <cmath>

#include "driver.h"
#include "fields.h"

namespace vf {
namespace fld {

inline const std::vector<ClassDef>& classes()
{
    // (never destroyed: the probe that runs after main() has returned still reads it)
    static const std::vector<ClassDef>* c = new std::vector<ClassDef>(buildClasses());
    return *c;
}

inline std::vector<uint64_t> valuesFor(const FieldDef& f, bool thorough, Rng& r)
{
    std::vector<uint64_t> v;
    if (!f.domain.empty())
        return f.domain;
    uint64_t max = f.maxValue();
    int bits = f.bits();
    if (f.isFloat)
    {
        static const uint32_t special[] = {0x00000000, 0x80000000, 0x3F800000, 0xBF800000, 0x7F800000, 0xFF800000, 0x00000001, 0x807FFFFF, 0x7F7FFFFF, 0x00800000, 0x3DCCCCCD, 0x447A0000, 0x01020304, 0xC0490FDB};
        for (uint32_t s : special)
            v.push_back(s);
        for (int i = 0; i < 64; ++i)
        {
            uint32_t x = static_cast<uint32_t>(r.next());
            if ((x & 0x7F800000) == 0x7F800000)
                x &= 0xFF800000;  // no NaNs: +-inf instead
            v.push_back(x);
        }
        return v;
    }
    if (bits <= 8 || (bits <= 16 && thorough))
    {
        for (uint64_t x = 0; x <= max; ++x)
            v.push_back(x);
        return v;
    }
    v = {0, 1, max, max - 1, max >> 1, (max >> 1) + 1};
    for (int b = 0; b < bits; ++b)
    {
        v.push_back(1ULL << b);
        v.push_back(max & ~(1ULL << b));
    }
    if (bits <= 16)
        for (uint64_t x = 0; x <= max; x += 127)
            v.push_back(x);
    for (int i = 0; i < 64; ++i)
        v.push_back(r.next() & max);
    // byte-pattern values that expose byte-order mistakes
    v.push_back(0x0102030405060708ULL & max);
    v.push_back(0x8040201008040201ULL & max);
    return v;
}

struct Engine
{
    Ctx& c;
    const ClassDef& cd;

    std::string fieldKey(const FieldDef& f) const
    {
        return cd.name + "." + f.name;
    }
    void v11(const std::string& key, const std::string& d, const std::string& in)
    {
        if (c.prop == "C11")
            c.violation(key, d, in);
    }
    void v12(const std::string& key, const std::string& d, const std::string& in)
    {
        if (c.prop == "C12")
            c.violation(key, d, in);
    }

    // (i) every getter returns extract(raw image)
    bool gettersMatch(const Subject& s, const Bytes& raw, const std::string& in, const char* when, const FieldDef* justSet)
    {
        bool ok = true;
        for (auto& g : cd.fields)
        {
            uint64_t want = extract(raw, g);
            if (!g.domain.empty() && std::find(g.domain.begin(), g.domain.end(), want) == g.domain.end())
                continue;  // the image holds a value outside this field's range: what its getter returns is not specified
            uint64_t got = g.get(s);
            if (got != want)
            {
                ok = false;
                char b[320];
                snprintf(b, sizeof b, "%s: getter %s returns 0x%llx, the layout position (offset %zu, width %zu, mask 0x%llx) holds 0x%llx", when, fieldKey(g).c_str(),
                         (unsigned long long) got, g.off, g.width, (unsigned long long) g.mask, (unsigned long long) want);
                if (cd.realBytes)
                    v12("C12:getter-does-not-read-layout-position:" + fieldKey(g), b, in);
                if (justSet)
                {
                    if (&g == justSet)
                        v11("C11:read-back-differs:" + fieldKey(g), b, in);
                    else
                        v11("C11:setter-changes-other-field:" + fieldKey(*justSet), b, in);
                }
            }
        }
        if (cd.derived)
        {
            std::string d = cd.derived(s, raw);
            if (!d.empty())
            {
                ok = false;
                v11("C11:read-back-differs:" + cd.name + ".formatted-getter", std::string(when) + ": " + d, in);
                v12("C12:getter-does-not-read-layout-position:" + cd.name + ".formatted-getter", std::string(when) + ": " + d, in);
            }
        }
        return ok;
    }

    // one setter call on subject s, checked against the shadow image
    void step(Subject& s, const FieldDef& f, uint64_t v, const std::string& history)
    {
        Bytes before = s.raw();
        std::string in = cd.name + ": image before=" + hex(before, 64) + " " + history + " set " + f.name + "(0x" + [&] { char b[32]; snprintf(b, sizeof b, "%llx", (unsigned long long) v); return std::string(b); }() + ")";
        c.note(in);
        Bytes expect = before;
        deposit(expect, f, v);
        f.set(s, v);
        ++c.evaluations;
        Bytes after = s.raw();
        if (after.size() != before.size())
        {
            v11("C11:setter-changes-length:" + fieldKey(f), "raw length " + std::to_string(before.size()) + " -> " + std::to_string(after.size()), in);
            return;
        }
        if (after != expect)
        {
            // which bits differ: the field's own, or others
            Bytes fieldMask(before.size(), 0);
            setBeWord(fieldMask, f.off, f.width, f.mask);
            bool ownWrong = false, otherWrong = false, reservedWrong = false;
            size_t firstOther = 0;
            for (size_t i = 0; i < after.size(); ++i)
            {
                uint8_t diff = after[i] ^ expect[i];
                if (diff & fieldMask[i])
                    ownWrong = true;
                if (diff & ~fieldMask[i])
                {
                    if (!otherWrong)
                        firstOther = i;
                    otherWrong = true;
                }
            }
            for (auto& rs : cd.reserved)
            {
                if ((beWord(after, rs.off, rs.width) & rs.mask) != (beWord(before, rs.off, rs.width) & rs.mask))
                    reservedWrong = true;
            }
            char b[400];
            snprintf(b, sizeof b, "after set: image=%s expected=%s (own bits %s, other bits %s%s)", hex(after, 48).c_str(), hex(expect, 48).c_str(), ownWrong ? "WRONG" : "ok", otherWrong ? "CHANGED" : "ok",
                     otherWrong ? (", first at byte " + std::to_string(firstOther)).c_str() : "");
            if (ownWrong && cd.realBytes)
                v12("C12:write-not-at-layout-position:" + fieldKey(f), b, in);
            if (ownWrong && !cd.realBytes)
                v11("C11:read-back-differs:" + fieldKey(f), b, in);
            if (otherWrong)
                v11("C11:setter-changes-other-bits:" + fieldKey(f), b, in);
            if (otherWrong && cd.realBytes)
                v12("C12:write-touches-bits-outside-field:" + fieldKey(f), b, in);
            if (reservedWrong)
                v12("C12:reserved-bits-changed:" + fieldKey(f), b, in);
        }
        gettersMatch(s, after, in, "after set", &f);
        // read back (independent of the image comparison)
        uint64_t rb = f.get(s);
        if (rb != v)
        {
            char b[128];
            snprintf(b, sizeof b, "wrote 0x%llx, read back 0x%llx", (unsigned long long) v, (unsigned long long) rb);
            v11("C11:read-back-differs:" + fieldKey(f), b, in);
        }
    }

    std::unique_ptr<Subject> background(int bg, Rng& r, std::string& name)
    {
        if (bg == 0)
        {
            name = "default";
            return cd.makeDefault();
        }
        Bytes b(cd.backgroundSize, bg == 1 ? 0x00 : 0xFF);
        name = bg == 1 ? "all-zero" : (bg == 2 ? "all-ones" : "random");
        if (bg >= 3)
            b = r.bytes(cd.backgroundSize);
        return cd.makeFromRaw(b);
    }
};

inline int backgroundsFor(bool thorough)
{
    return thorough ? 11 : 5;
}

// case = (class, field, background): every in-range value written from that background
inline void singleSetCase(Ctx& c, size_t ci, size_t fi, int bg)
{
    const ClassDef& cd = classes()[ci];
    const FieldDef& f = cd.fields[fi];
    Engine e{c, cd};
    Rng r = c.fixedRng(static_cast<long>(ci * 1000 + fi), static_cast<uint64_t>(bg));
    Rng rs = bg >= 3 ? c.caseRng(static_cast<long>(ci * 1000 + fi), static_cast<uint64_t>(bg)) : r;
    auto vals = valuesFor(f, c.thorough(), rs);
    std::string bgName = bg == 0 ? "default" : (bg == 1 ? "all-zero" : (bg == 2 ? "all-ones" : "random"));
    Bytes bgBytes(cd.backgroundSize, bg == 1 ? 0x00 : 0xFF);
    if (bg >= 3)
        bgBytes = rs.bytes(cd.backgroundSize);
    auto mk = [&]() { return bg == 0 ? cd.makeDefault() : cd.makeFromRaw(bgBytes); };
    {
        // (i) on the untouched background
        auto proto = mk();
        Bytes protoRaw = proto->raw();
        e.gettersMatch(*proto, protoRaw, cd.name + " background " + bgName + " image=" + hex(protoRaw, 64), "background", nullptr);
    }
    size_t vi = 0;
    for (uint64_t v : vals)
    {
        auto s = mk();
        std::string tagged;
        if (cd.retag && (vi++ % 4) == 3)
        {
            tagged = "; " + cd.retag(*s, rs.next());
            c.count("setter_calls_on_objects_with_a_changed_type_tag");
        }
        e.step(*s, f, v, "(background " + bgName + tagged + ")");
        const char* vc = v == 0 ? "0" : (v == f.maxValue() ? "max" : (__builtin_popcountll(v) == 1 ? "single-bit" : "other"));
        c.sig(mix64(hashStr(cd.name + "." + f.name), mix64(static_cast<uint64_t>(bg > 3 ? 3 : bg), hashStr(vc))));
    }
    c.feature("fields_exercised", cd.name + "." + f.name);
    c.count("setter_calls", vals.size());
    if (c.samples.size() < 3)
        c.sample(cd.name + "." + f.name + " from background " + bgName + ": " + std::to_string(vals.size()) + " values", 3);
}

// case = (class, seed): random sequences of setter calls on one object (flags set and cleared on top of non-zero neighbours)
inline void sequenceCaseInner(Ctx& c, size_t ci, long idx);
inline void sequenceCase(Ctx& c, size_t ci, long idx)
{
    const uint64_t hl = mix64(static_cast<uint64_t>(idx), 0x10ca1e);  // (decorrelated from the class index, which is idx modulo the class count)
    if (hl % 4 == 1)
    {
        // a quarter of the sequences run in a process whose global C++ locale groups digits (group sizes 1, 2, 3)
        ScopedGlobalLocale g(static_cast<unsigned>(hl >> 8));
        c.count("setter_sequences_under_a_global_locale_with_digit_grouping");
        sequenceCaseInner(c, ci, idx);
        return;
    }
    sequenceCaseInner(c, ci, idx);
}
inline void sequenceCaseInner(Ctx& c, size_t ci, long idx)
{
    const ClassDef& cd = classes()[ci];
    Engine e{c, cd};
    Rng r = c.caseRng(idx, 0x5e9);
    std::string bgName;
    auto s = e.background(static_cast<int>(r.below(4)), r, bgName);
    std::string hist = "(background " + bgName + "; sequence:";
    size_t n = r.range(8, 64);
    for (size_t i = 0; i < n; ++i)
    {
        if (cd.retag && r.chance(1, 6))
        {
            // the type tag is changed through the Payload base: no byte and no typed getter may change, and every later
            // setter call is still judged by the static class
            Bytes before = s->raw();
            std::string call = cd.retag(*s, r.next());
            Bytes after = s->raw();
            ++c.evaluations;
            std::string in = cd.name + ": image before=" + hex(before, 64) + " " + hist + ") " + call;
            c.note(in);
            if (after != before)
                e.v11("C11:type-tag-setter-changes-payload-bytes:" + cd.name, "after " + call + ": image=" + hex(after, 64), in);
            e.gettersMatch(*s, after, in, "after type tag change", nullptr);
            if (hist.size() < 600)
                hist += " [" + call + "]";
            c.count("type_tag_changes_inside_setter_sequences");
        }
        const FieldDef& f = cd.fields[r.below(cd.fields.size())];
        uint64_t v;
        if (!f.domain.empty())
            v = f.domain[r.below(f.domain.size())];
        else if (f.bits() == 1)
            v = r.below(2);
        else if (f.isFloat)
        {
            uint32_t x = static_cast<uint32_t>(r.next());
            if ((x & 0x7F800000) == 0x7F800000)
                x &= 0xFF800000;
            v = x;
        }
        else
            v = r.chance(1, 4) ? r.pick<uint64_t>({0, f.maxValue()}) : (r.next() & f.maxValue());
        e.step(*s, f, v, hist + ")");
        if (hist.size() < 600)
            hist += " " + f.name;
    }
    c.count("setter_sequences");
    c.count("setter_calls", n);
}

// C12 (a): default-constructed objects: size is the standard's, reserved bytes / bits are zero
inline void defaultsCase(Ctx& c)
{
    struct Sz
    {
        const char* name;
        size_t actual, standard;
    } sizes[] = {
        {"sizeof(CmpHeader)", sizeof(ASAM::CMP::CmpHeader), 8},
        {"sizeof(MessageHeader)", sizeof(ASAM::CMP::MessageHeader), 16},
        {"sizeof(CanPayloadBase::Header)", sizeof(ASAM::CMP::CanPayloadBase::Header), 16},
        {"sizeof(LinPayload::Header)", sizeof(ASAM::CMP::LinPayload::Header), 8},
        {"sizeof(EthernetPayload::Header)", sizeof(ASAM::CMP::EthernetPayload::Header), 6},
        {"sizeof(AnalogPayload::Header)", sizeof(ASAM::CMP::AnalogPayload::Header), 16},
        {"sizeof(CaptureModulePayload::Header)", sizeof(ASAM::CMP::CaptureModulePayload::Header), 26},
        {"sizeof(InterfacePayload::Header)", sizeof(ASAM::CMP::InterfacePayload::Header), 36},
        {"sizeof(TECMP::CmpHeader)", sizeof(TECMP::CmpHeader), 28},
        {"CanPayload().getLength()", ASAM::CMP::CanPayload().getLength(), 16},
        {"CanFdPayload().getLength()", ASAM::CMP::CanFdPayload().getLength(), 16},
        {"LinPayload().getLength()", ASAM::CMP::LinPayload().getLength(), 8},
        {"EthernetPayload().getLength()", ASAM::CMP::EthernetPayload().getLength(), 6},
        {"AnalogPayload().getLength()", ASAM::CMP::AnalogPayload().getLength(), 16},
        {"CaptureModulePayload().getLength()", ASAM::CMP::CaptureModulePayload().getLength(), 26 + 5 * 2},
        {"InterfacePayload().getLength()", ASAM::CMP::InterfacePayload().getLength(), 36 + 2 * 2},
        {"TECMP::CanPayload().getLength()", TECMP::CanPayload().getLength(), 5},
        {"TECMP::LinPayload().getLength()", TECMP::LinPayload().getLength(), 2},
        {"TECMP::CaptureModulePayload().getLength()", TECMP::CaptureModulePayload().getLength(), 36},
        {"TECMP::InterfacePayload().getLength()", TECMP::InterfacePayload().getLength(), 28},
    };
    for (auto& s : sizes)
    {
        ++c.evaluations;
        if (s.actual != s.standard && c.prop == "C12")
            c.violation(std::string("C12:header-size:") + s.name, std::string(s.name) + " = " + std::to_string(s.actual) + ", standard size is " + std::to_string(s.standard), "");
        c.count("size_checks");
    }
    for (auto& cd : classes())
    {
        if (!cd.realBytes)
            continue;
        auto s = cd.makeDefault();
        Bytes raw = s->raw();
        ++c.evaluations;
        for (auto& rs : cd.reserved)
        {
            if (rs.off + rs.width <= raw.size() && (beWord(raw, rs.off, rs.width) & rs.mask) != 0 && c.prop == "C12")
                c.violation("C12:reserved-not-zero-in-default-object:" + cd.name, "default image " + hex(raw, 64) + ": reserved bits at offset " + std::to_string(rs.off) + " are not zero", "");
            c.count("reserved_checks");
        }
        // a default object's payload header is all zero except documented defaults (CMP header version = 1, TECMP types = 0xFF)
        Engine e{c, cd};
        e.gettersMatch(*s, raw, cd.name + " default image=" + hex(raw, 64), "default object", nullptr);
    }
}

// setCommonFlag / getCommonFlag with the one enumerator that covers two bits (CommonFlags::seg = 0x0C): "set" must read
// back as set, "clear" as clear, from every prior flags byte, and no bit outside the mask may change.
// (Which of the two bits a "set" turns on is not fixed by the statement and not demanded.)
template <typename T>
inline void segMaskOne(Ctx& c, const char* cls)
{
    using CF = ASAM::CMP::MessageHeader::CommonFlags;
    for (int prior = 0; prior < 256; ++prior)
        for (int v = 0; v < 2; ++v)
        {
            T o{};
            o.setCommonFlags(static_cast<uint8_t>(prior));
            uint64_t tsBefore = o.getTimestamp();
            o.setTimestamp(0x1122334455667788ULL);
            tsBefore = o.getTimestamp();
            o.setCommonFlag(CF::seg, v != 0);
            ++c.evaluations;
            uint8_t after = o.getCommonFlags();
            char b[200];
            snprintf(b, sizeof b, "%s: flags byte 0x%02x, setCommonFlag(seg, %s) -> 0x%02x, getCommonFlag(seg)=%d", cls, prior, v ? "true" : "false", after, o.getCommonFlag(CF::seg));
            if (c.prop == "C11")
            {
                if (o.getCommonFlag(CF::seg) != (v != 0))
                    c.violation(std::string("C11:read-back-differs:") + cls + ".flag.seg", b, b);
                if ((after & ~0x0C) != (prior & ~0x0C) || o.getTimestamp() != tsBefore)
                    c.violation(std::string("C11:setter-changes-other-bits:") + cls + ".flag.seg", b, b);
                // MessageHeader derives the segment type from the same bits; Packet keeps it in a separate member
                if (std::is_same<T, ASAM::CMP::MessageHeader>::value && static_cast<uint8_t>(o.getSegmentType()) != (after & 0x0C))
                    c.violation(std::string("C11:setter-changes-other-field:") + cls + ".flag.seg", b, b);
            }
            c.count("multi_bit_mask_flag_checks");
        }
    c.feature("fields_exercised", std::string(cls) + ".flag.seg(two-bit mask)");
}
inline void segMaskCase(Ctx& c)
{
    segMaskOne<ASAM::CMP::MessageHeader>(c, "MessageHeader");
    segMaskOne<ASAM::CMP::Packet>(c, "Packet");
}

// Packet::getRawCmpHeader / getRawMessageHeader: the 8 + 16 bytes they write into the caller's buffer follow the wire
// layout for the packet's message type (reserved bytes zero), whatever the destination held before.
inline void packetRawHeaders(Ctx& c, Rng& r, int iterations)
{
    using namespace ASAM::CMP;
    for (int it = 0; it < iterations; ++it)
    {
        static const uint8_t mts[] = {wire::MT_DATA, wire::MT_STATUS, wire::MT_CONTROL, wire::MT_VENDOR, wire::MT_DATA, wire::MT_STATUS, 0x00, 0x07};
        uint8_t mt = mts[r.below(sizeof mts)];
        uint8_t pt = static_cast<uint8_t>(r.range(1, 255));
        Bytes pl = r.bytes(r.chance(1, 20) ? r.pick<size_t>({0, 255, 256, 65535}) : r.below(40));
        Packet p;
        const uint8_t ver = r.byte(), stream = r.byte(), flags = r.byte();
        const uint16_t dev = static_cast<uint16_t>(r.next()), seq = static_cast<uint16_t>(r.next()), vendor = static_cast<uint16_t>(r.next());
        const uint64_t ts = r.next();
        const uint32_t iface = static_cast<uint32_t>(r.next());
        // the setters in a random order; the payload decides the message type
        std::vector<int> order = {0, 1, 2, 3, 4, 5, 6, 7, 8};
        for (size_t i = order.size(); i > 1; --i)
            std::swap(order[i - 1], order[r.below(i)]);
        for (int o : order)
            switch (o)
            {
                case 0: p.setVersion(ver); break;
                case 1: p.setDeviceId(dev); break;
                case 2: p.setStreamId(stream); break;
                case 3: p.setSequenceCounter(seq); break;
                case 4: p.setTimestamp(ts); break;
                case 5: p.setInterfaceId(iface); break;
                case 6: p.setVendorId(vendor); break;
                case 7: p.setCommonFlags(flags); break;
                default: p.setPayload(Payload(PayloadType(static_cast<CmpHeader::MessageType>(mt), pt), pl.data(), pl.size())); break;
            }
        if (r.chance(1, 3))
        {
            // the payload's type is changed in place afterwards: the raw headers follow the payload the packet holds now
            mt = mts[r.below(sizeof mts)];
            pt = static_cast<uint8_t>(r.range(1, 255));
            if (r.chance(1, 2))
            {
                p.getPayload().setMessageType(static_cast<CmpHeader::MessageType>(mt));
                p.getPayload().setRawPayloadType(pt);
            }
            else
                p.getPayload().setType(PayloadType(static_cast<CmpHeader::MessageType>(mt), pt));
            c.count("raw_header_images_after_in_place_retype");
        }
        Bytes expect;
        wire::put8(expect, ver);
        wire::put8(expect, 0);
        wire::put16(expect, dev);
        wire::put8(expect, mt);
        wire::put8(expect, stream);
        wire::put16(expect, seq);
        wire::put64(expect, ts);
        if (mt == wire::MT_DATA)
            wire::put32(expect, iface);
        else if (mt == wire::MT_STATUS || mt == wire::MT_VENDOR)
        {
            wire::put16(expect, 0);
            wire::put16(expect, vendor);
        }
        else
            wire::put32(expect, 0);
        wire::put8(expect, flags);
        wire::put8(expect, pt);
        wire::put16(expect, static_cast<uint16_t>(pl.size()));
        for (int bg = 0; bg < 3; ++bg)
        {
            // destination: zero, all ones, the previous packet's bytes / random
            Bytes dest(24, bg == 0 ? 0x00 : 0xFF);
            if (bg == 2)
                dest = r.bytes(24);
            p.getRawCmpHeader(dest.data());
            p.getRawMessageHeader(dest.data() + 8);
            ++c.evaluations;
            c.count("raw_header_images_checked");
            if (dest != expect)
            {
                size_t k = 0;
                while (k < 24 && dest[k] == expect[k])
                    ++k;
                char b[200];
                snprintf(b, sizeof b, "byte %zu of the %s differs from the layout (message type 0x%02x, destination pre-filled with %s)", k < 8 ? k : k - 8,
                         k < 8 ? "CMP header written by getRawCmpHeader" : "message header written by getRawMessageHeader", mt, bg == 0 ? "zeros" : (bg == 1 ? "ones" : "random bytes"));
                c.violation(std::string("C12:packet-raw-header-differs-from-layout:") + (k < 8 ? "cmp" : "message"), std::string(b) + " written=" + hex(dest, 24) + " layout=" + hex(expect, 24),
                            "Packet with message type " + std::to_string(mt));
            }
        }
        c.feature("fields_exercised", std::string("Packet.rawHeaders(message type ") + std::to_string(mt) + ")");
    }
}

// TECMP payload members outside the field tables: LinPayload::setData (data + length written, pid kept, bytes read back),
// CaptureModulePayload::getVoltage (derived from the two voltage bytes: whole + fraction / 100)
inline void tecmpExtrasCase(Ctx& c)
{
    Rng r = c.fixedRng(7, 77);
    for (int it = 0; it < 2000; ++it)
    {
        TECMP::LinPayload p;
        uint8_t pid = r.byte();
        p.setPid(pid);
        size_t steps = r.range(1, 4);
        for (size_t k = 0; k < steps; ++k)
        {
            Bytes d = r.bytes(k == 0 && it < 256 ? static_cast<size_t>(it) : r.below(256));
            p.setData(d.data(), static_cast<uint8_t>(d.size()));
            ++c.evaluations;
            c.count("tecmp_lin_setdata_checks");
            bool ok = p.getDataLength() == d.size() && p.getPid() == pid && p.getLength() == 2 + d.size() && (d.empty() || memcmp(p.getData(), d.data(), d.size()) == 0);
            const uint8_t* raw = p.getRawPayload();
            ok = ok && raw[0] == pid && raw[1] == d.size() && (d.empty() || memcmp(raw + 2, d.data(), d.size()) == 0);
            if (!ok)
            {
                if (c.prop == "C11")
                    c.violation("C11:read-back-differs:TECMP::LinPayload.setData", "data / length / pid do not read back after setData(" + std::to_string(d.size()) + " bytes)", "TECMP::LinPayload");
                else
                    c.violation("C12:field-not-at-layout-position:TECMP::LinPayload.data", "raw bytes after setData(" + std::to_string(d.size()) + " bytes): " + hex(raw, p.getLength(), 40), "TECMP::LinPayload");
            }
        }
    }
    c.feature("fields_exercised", "TECMP::LinPayload.setData");
    for (unsigned w = 0; w < 256; ++w)
        for (unsigned f = 0; f < 256; ++f)
        {
            TECMP::CaptureModulePayload p;
            p.setVoltageFraction(static_cast<uint8_t>(f));
            p.setVoltageWhole(static_cast<uint8_t>(w));
            float v = p.getVoltage();
            float e = static_cast<float>(w) + static_cast<float>(f) / 100.0f;
            ++c.evaluations;
            if (!(v == e))
            {
                char b[120];
                snprintf(b, sizeof b, "getVoltage()=%g for voltage bytes whole=%u fraction=%u (expected %g)", static_cast<double>(v), w, f, static_cast<double>(e));
                c.violation(c.prop == "C11" ? "C11:read-back-differs:TECMP::CaptureModulePayload.voltage" : "C12:field-not-at-layout-position:TECMP::CaptureModulePayload.voltage", b, "TECMP::CaptureModulePayload");
            }
        }
    c.count("tecmp_voltage_checks", 65536);
    c.feature("fields_exercised", "TECMP::CaptureModulePayload.getVoltage");
}

struct Index
{
    std::vector<std::pair<size_t, size_t>> fields;  // (class, field)
    Index()
    {
        for (size_t ci = 0; ci < classes().size(); ++ci)
            for (size_t fi = 0; fi < classes()[ci].fields.size(); ++fi)
                fields.push_back({ci, fi});
    }
};
inline const Index& index()
{
    static const Index i;
    return i;
}

inline long count(Ctx& c)
{
    long single = static_cast<long>(index().fields.size()) * backgroundsFor(c.thorough());
    long seq = static_cast<long>(classes().size()) * (c.thorough() ? 40000 : 150);
    return 3 + single + seq;
}
inline void run(Ctx& c, long idx)
{
    if (idx == 0)
        return defaultsCase(c);
    if (idx == 1)
        return segMaskCase(c);
    if (idx == 2)
        return tecmpExtrasCase(c);
    idx -= 3;
    long nb = backgroundsFor(c.thorough());
    long single = static_cast<long>(index().fields.size()) * nb;
    if (idx < single)
    {
        auto cf = index().fields[static_cast<size_t>(idx / nb)];
        return singleSetCase(c, cf.first, cf.second, static_cast<int>(idx % nb));
    }
    idx -= single;
    sequenceCase(c, static_cast<size_t>(idx) % classes().size(), idx);
}

}  // namespace fld
}  // namespace vf
