// Reference layout model for the encoder: the segmentation / aggregation rules of the property C08,
// written directly from the rule text. Input: message types and payload lengths of a batch + {min,max}.
// Output: the frames, each a list of (packet index, segment flag, payload offset, length).
#pragma once
#include <cstddef>
#include <cstdint>
#include <vector>

#include "wire.h"

namespace vf {

struct LayoutItem
{
    size_t packet;
    uint8_t seg;  // wire::SEG_*
    size_t offset;
    size_t length;
    bool operator==(const LayoutItem& o) const
    {
        return packet == o.packet && seg == o.seg && offset == o.offset && length == o.length;
    }
};
struct LayoutFrame
{
    uint8_t msgType = 0;
    std::vector<LayoutItem> items;
    size_t used() const  // bytes occupied by header + messages
    {
        size_t u = wire::kCmpHeader;
        for (auto& i : items)
            u += wire::kMsgHeader + i.length;
        return u;
    }
    bool hasSegment() const
    {
        for (auto& i : items)
            if (i.seg != wire::SEG_NONE)
                return true;
        return false;
    }
};
using Layout = std::vector<LayoutFrame>;

struct RefPacket
{
    uint8_t msgType;
    size_t length;
};

inline Layout refLayout(const std::vector<RefPacket>& pkts, size_t max)
{
    Layout out;
    const size_t cap = max - wire::kCmpHeader;  // room for messages in one frame
    bool open = false;                          // is out.back() still open for appending?
    for (size_t p = 0; p < pkts.size(); ++p)
    {
        const size_t need = wire::kMsgHeader + pkts[p].length;
        if (need > cap)
        {
            // does not fit into an empty frame: segments, one per frame, alone, all but the last full
            open = false;
            const size_t chunkMax = cap - wire::kMsgHeader;
            size_t off = 0;
            bool first = true;
            while (off < pkts[p].length)
            {
                size_t chunk = pkts[p].length - off < chunkMax ? pkts[p].length - off : chunkMax;
                uint8_t seg = first ? wire::SEG_FIRST : (off + chunk == pkts[p].length ? wire::SEG_LAST : wire::SEG_MID);
                LayoutFrame f;
                f.msgType = pkts[p].msgType;
                f.items.push_back({p, seg, off, chunk});
                out.push_back(f);
                off += chunk;
                first = false;
            }
        }
        else
        {
            if (open && out.back().msgType == pkts[p].msgType && !out.back().hasSegment() && out.back().used() + need <= max)
            {
                out.back().items.push_back({p, wire::SEG_NONE, 0, pkts[p].length});
            }
            else
            {
                LayoutFrame f;
                f.msgType = pkts[p].msgType;
                f.items.push_back({p, wire::SEG_NONE, 0, pkts[p].length});
                out.push_back(f);
                open = true;
            }
        }
    }
    return out;
}

}  // namespace vf
