// C04: decoded packets report exactly what is on the wire (unsegmented messages, truncation, zero padding).
#pragma once
#include "dec_common.h"

namespace vf {
namespace c04 {

struct FrameSpec
{
    uint8_t ver = 1, mt = 1, stream = 0;
    uint16_t dev = 0, seq = 0;
    std::vector<GMsg> msgs;
    std::vector<int> klass;  // 0 valid, 1 inconsistent, 2 bus error
    std::vector<Kind> kinds;
};

inline void prime(ASAM::CMP::Decoder& dec, Rng& r, uint16_t dev, uint8_t stream)
{
    // prior history: random traffic, an open reassembly on the same endpoint and on another one
    size_t n = r.below(6);
    for (size_t i = 0; i < n; ++i)
    {
        uint8_t mt;
        GMsg m = genMsg(r, K_GEN_DATA, r.range(1, 30), mt);
        if (r.chance(1, 2))
            m.flags |= wire::SEG_FIRST;
        Bytes f = buildFrame(static_cast<uint8_t>(r.range(1, 3)), r.chance(1, 2) ? dev : pickDevice(r), wire::MT_DATA, r.chance(1, 2) ? stream : pickStream(r), static_cast<uint16_t>(r.next()), {m});
        if (r.chance(1, 5))
            mutateFrame(f, r);
        decodeCopy(dec, f);
    }
}

inline FrameSpec genSpec(Rng& r, int forcedKind, size_t k)
{
    FrameSpec s;
    s.ver = r.chance(1, 4) ? r.pick<uint8_t>({1, 2, 255, 0x80}) : static_cast<uint8_t>(r.range(1, 255));
    s.dev = r.chance(1, 2) ? pickDevice(r) : static_cast<uint16_t>(r.next());
    s.stream = r.chance(1, 2) ? pickStream(r) : r.byte();
    s.seq = static_cast<uint16_t>(r.next());
    Kind first = forcedKind >= 0 ? static_cast<Kind>(forcedKind) : static_cast<Kind>(r.below(K_COUNT));
    uint8_t mt = kindMsgType(first, r);
    s.mt = mt;
    for (size_t i = 0; i < k; ++i)
    {
        Kind kd = (i == 0 || forcedKind >= 0) ? first : genKindForType(r, mt);
        if (kindMsgType(kd, r) != mt && !(kd == K_OTHER_MT))
            kd = first;
        uint8_t dummy;
        GMsg m = genMsg(r, kd, r.chance(1, 10) ? r.range(1, 300) : r.range(1, 60), dummy);
        int klass = 0;
        if (!kindIsTyped(kd) && r.chance(1, 10))
            m.payload.clear();  // a zero-length payload is a legitimate unsegmented message
        if (kindIsTyped(kd))
        {
            unsigned w = static_cast<unsigned>(r.below(100));
            if (w < 15)
            {
                m.payload = genInconsistentPayload(kd, r);
                if (m.payload.empty())
                    m.payload.push_back(0);
                klass = 1;
            }
            else if (w < 30 && (kd == K_CAN || kd == K_CANFD || kd == K_ETH))
            {
                m.payload = genBusErrorPayload(kd, r.range(1, 60), r);
                klass = 2;
            }
        }
        s.msgs.push_back(std::move(m));
        s.klass.push_back(klass);
        s.kinds.push_back(kd);
    }
    return s;
}

struct Checker
{
    Ctx& c;
    // decode `f` on `dec` and compare with the independent parse; returns number of packets
    size_t check(ASAM::CMP::Decoder& dec, const Bytes& f, const char* what, uint64_t sigBase)
    {
        c.note(std::string(what) + " frame=" + hex(f, 30000));
        RefDecoder ref;
        auto exp = ref.feed(f);
        auto got = decodeCopy(dec, f);
        ++c.evaluations;
        char buf[200];
        if (got.size() != exp.size())
        {
            snprintf(buf, sizeof buf, "%s: %zu packets returned, the frame contains %zu complete messages", what, got.size(), exp.size());
            c.violation(got.size() < exp.size() ? "C04:message-missing" : "C04:surplus-packet", buf, "frame=" + hex(f, 30000));
        }
        size_t n = std::min(got.size(), exp.size());
        uint64_t pattern = 0;
        for (size_t i = 0; i < n; ++i)
        {
            if (!got[i])
            {
                c.violation("C04:null-packet", "null packet returned", "frame=" + hex(f, 30000));
                continue;
            }
            Expect ev = expectValidity(exp[i].msgType, exp[i].hdr.payloadType, exp[i].data.data(), exp[i].data.size());
            pattern = pattern * 4 + static_cast<uint64_t>(ev) + 1;
            std::string detail;
            std::string field = compareDelivery(*got[i], exp[i], ev, detail);
            if (!field.empty())
                c.violation("C04:" + field, std::string(what) + ": message " + std::to_string(i) + " of " + std::to_string(exp.size()) + ": " + detail, "frame=" + hex(f, 30000));
            c.count(ev == EXP_VALID ? "messages_expected_valid" : (ev == EXP_INVALID ? "messages_expected_invalid" : "messages_validity_unspecified"));
        }
        if (n >= 1)
            c.sig(mix64(sigBase, mix64(pattern, n)));
        return got.size();
    }
};

inline uint64_t specSig(const FrameSpec& s)
{
    uint64_t h = s.mt;
    for (size_t i = 0; i < s.msgs.size(); ++i)
        h = mix64(h, static_cast<uint64_t>(s.kinds[i]) * 4 + static_cast<uint64_t>(s.klass[i]));
    return h;
}

// deterministic: one (kind, k) combination with every cut point and the paddings
inline void kindSweep(Ctx& c, long j)
{
    static const size_t ks[] = {0, 1, 2, 5};
    int kind = static_cast<int>(j / 4);
    size_t k = ks[j % 4];
    Rng r = c.fixedRng(j, 4);
    FrameSpec s = genSpec(r, kind, k);
    for (auto& m : s.msgs)
        if (m.payload.size() > 70)
            m.payload = genPayload(static_cast<Kind>(kind), 1, r);  // keep the frame <= 400 bytes
    Bytes f = buildFrame(s.ver, s.dev, s.mt, s.stream, s.seq, s.msgs);
    Checker ck{c};
    ASAM::CMP::Decoder dec;
    prime(dec, r, s.dev, s.stream);
    uint64_t sb = specSig(s);
    ck.check(dec, f, "whole frame", sb);
    for (size_t cut = 0; cut < f.size(); ++cut)
    {
        Bytes t(f.begin(), f.begin() + static_cast<long>(cut));
        ck.check(dec, t, "frame cut short", mix64(sb, 1));
        c.count("cut_points");
    }
    for (size_t pad : {size_t(1), size_t(15), size_t(16), size_t(17), size_t(64)})
    {
        Bytes t = f;
        t.insert(t.end(), pad, 0);
        ck.check(dec, t, "zero padded frame", mix64(sb, 2));
        c.count("zero_paddings");
    }
    c.feature("c04_kinds", kindName(kind));
    c.sample(std::string("kind sweep ") + kindName(kind) + " k=" + std::to_string(k) + " frame=" + hex(f, 80), 2);
}

// deterministic: all versions 1..255, all message types 0..255, all payload types 1..255 on a generic message
inline void fieldSweep(Ctx& c, long j)
{
    Rng r = c.fixedRng(j, 5);
    Checker ck{c};
    ASAM::CMP::Decoder dec;
    for (int v = (j == 1 ? 0 : 1); v <= 255; ++v)
    {
        uint8_t mt;
        GMsg m = genMsg(r, K_GEN_DATA, 12, mt);
        uint8_t ver = 1, t = wire::MT_DATA;
        if (j == 0)
            ver = static_cast<uint8_t>(v);
        else if (j == 1)
            t = static_cast<uint8_t>(v);
        else
            m.ptype = static_cast<uint8_t>(v);
        // typed payload types need a consistent payload to stay in the "generic" reading: give them one
        if (j == 2 && (v == 1 || v == 2 || v == 3 || v == 7 || v == 8))
        {
            static const Kind map[9] = {K_GEN_DATA, K_CAN, K_CANFD, K_LIN, K_GEN_DATA, K_GEN_DATA, K_GEN_DATA, K_ANALOG, K_ETH};
            m.payload = genPayload(map[v], 24, r);
        }
        if (j == 1 && v == 3)
            m.ptype = 0x10;  // status message of a payload type without typed class
        Bytes f = buildFrame(ver, 0x0102, t, 3, static_cast<uint16_t>(v), {m});
        ck.check(dec, f, j == 0 ? "version sweep" : (j == 1 ? "message type sweep" : "payload type sweep"), mix64(77, static_cast<uint64_t>(j) * 256 + static_cast<uint64_t>(v)));
    }
    c.count("field_sweeps");
}

// deterministic: per typed kind, 300 inconsistent / bus-error variants in multi-message frames
inline void validitySweep(Ctx& c, long j)
{
    Kind kd = static_cast<Kind>(j % 7);
    Rng r = c.fixedRng(j, 6);
    Checker ck{c};
    ASAM::CMP::Decoder dec;
    for (int i = 0; i < 300; ++i)
    {
        FrameSpec s;
        s.mt = kindMsgType(kd, r);
        uint8_t dummy;
        // valid, bad, valid: the message after the bad one must still be found at the right position
        GMsg a = genMsg(r, kd, r.range(1, 40), dummy);
        GMsg b = genMsg(r, kd, 1, dummy);
        bool bus = (kd == K_CAN || kd == K_CANFD || kd == K_ETH) && (i % 3 == 0);
        b.payload = bus ? genBusErrorPayload(kd, r.range(1, 40), r) : genInconsistentPayload(kd, r);
        if (b.payload.empty())
            b.payload.push_back(0);
        GMsg d = genMsg(r, kd, r.range(1, 40), dummy);
        Bytes f = buildFrame(1, 7, s.mt, 1, static_cast<uint16_t>(i), {a, b, d});
        ck.check(dec, f, bus ? "bus-error payload between valid ones" : "inconsistent payload between valid ones", mix64(static_cast<uint64_t>(kd), bus ? 5 : 6));
    }
    c.feature("c04_invalid_kinds", kindName(kd));
}

// deterministic: per typed kind and payload size, every inner length field swept over a value lattice (8-bit fields
// exhaustively); the swept message sits between two valid ones so that the position of the following message is checked
inline void innerLengthSweep(Ctx& c, long j)
{
    Kind kd = static_cast<Kind>(j % 7);
    size_t extra = static_cast<size_t>((j / 7) % 3) * 9 + static_cast<size_t>((j / 7) % 3);  // 0, 10, 20 bytes beyond the minimum
    Rng r = c.fixedRng(j, 8);
    Checker ck{c};
    ASAM::CMP::Decoder dec;
    uint8_t mt = kindMsgType(kd, r);
    Bytes base = genPayload(kd, kindMinLen(kd) + extra, r);
    for (auto& lf : lengthFieldsOf(kd, base))
    {
        size_t rem = base.size() - (lf.first + static_cast<size_t>(lf.second));
        for (uint32_t v : lengthLattice(lf.second, rem, c.thorough() && (j / 7) % 3 == 0))
        {
            uint8_t dummy;
            GMsg a = genMsg(r, kd, 1, dummy), b = genMsg(r, kd, 1, dummy), d = genMsg(r, kd, 1, dummy);
            b.payload = base;
            if (lf.second == 1)
                b.payload[lf.first] = static_cast<uint8_t>(v);
            else
                wire::set16(b.payload.data() + lf.first, static_cast<uint16_t>(v));
            Bytes f = buildFrame(1, 9, mt, 2, static_cast<uint16_t>(v), {a, b, d});
            ck.check(dec, f, "inner length field swept", mix64(static_cast<uint64_t>(kd) * 64 + lf.first, v < 4 ? v : (v == rem ? 4 : (v > rem ? 5 : 6))));
            c.count("inner_length_field_values");
        }
    }
    c.feature("c04_inner_length_kinds", kindName(kd));
}

// deterministic: frames carrying hundreds / thousands of small messages (more than 255, more than 4095, more than 64 KiB in total)
inline void manyMessages(Ctx& c, long j)
{
    static const size_t counts[] = {256, 300, 4100, 5000};
    size_t n = counts[j % 4];
    Rng r = c.fixedRng(j, 41);
    Kind kd = (j / 4) ? K_GEN_STATUS : K_GEN_DATA;
    uint8_t mt = kindMsgType(kd, r);
    std::vector<GMsg> ms;
    for (size_t i = 0; i < n; ++i)
    {
        uint8_t dummy;
        GMsg m = genMsg(r, kd, 1, dummy);
        m.payload = Bytes(i % 4, static_cast<uint8_t>(i));  // lengths 0..3
        m.ts = i;
        ms.push_back(std::move(m));
    }
    Bytes f = buildFrame(2, 0x0102, mt, 7, 1, ms);
    Checker ck{c};
    ASAM::CMP::Decoder dec;
    ck.check(dec, f, "frame with very many messages", mix64(0x3a9, static_cast<uint64_t>(j)));
    Bytes t(f.begin(), f.begin() + static_cast<long>(f.size() - 1));
    ck.check(dec, t, "frame with very many messages cut short", mix64(0x3aa, static_cast<uint64_t>(j)));
    c.count("frames_with_hundreds_of_messages", 2);
}

// deterministic: frames longer than 64 KiB (aggregated messages summing past 65536 bytes, a 65535-byte message followed by
// another message / by zero padding), whole, cut near the end and zero padded
inline void bigFrames(Ctx& c, long j)
{
    static const std::vector<std::vector<size_t>> shapes = {
        {30000, 30000, 30000}, {40000, 40000}, {20000, 20000, 20000, 20000, 20000}, {65535, 1}, {65535}, {65535, 65535}, {1, 65535}, {65519, 0, 3},
        {65500, 10, 10, 10}, {32768, 32768, 1}, {65535, 0}, {10, 65510, 10}};
    const auto& sh = shapes[static_cast<size_t>(j) % shapes.size()];
    Rng r = c.fixedRng(j, 43);
    bool status = (j / static_cast<long>(shapes.size())) % 2;
    Kind kd = status ? K_GEN_STATUS : ((j % 3 == 0) ? K_ETH : K_GEN_DATA);
    uint8_t mt = kindMsgType(kd, r);
    std::vector<GMsg> ms;
    for (size_t L : sh)
    {
        uint8_t dummy;
        GMsg m = genMsg(r, L >= 6 ? kd : (status ? K_GEN_STATUS : K_GEN_DATA), std::max<size_t>(L, 1), dummy);
        if (L == 0)
            m.payload.clear();
        else if (m.payload.size() != L)
            m.payload = r.bytes(L), m.ptype = 0x33;
        ms.push_back(std::move(m));
    }
    Bytes f = buildFrame(1, 0x0203, mt, 4, 77, ms);
    Checker ck{c};
    ASAM::CMP::Decoder dec;
    uint64_t sb = mix64(0xb16f, static_cast<uint64_t>(j));
    ck.check(dec, f, "frame longer than 64 KiB", sb);
    for (size_t cut : {size_t(1), size_t(2), size_t(15), size_t(16), size_t(17), size_t(40)})
        if (f.size() > cut)
        {
            Bytes t(f.begin(), f.end() - static_cast<long>(cut));
            ck.check(dec, t, "frame longer than 64 KiB cut short", mix64(sb, 1));
        }
    for (size_t pad : {size_t(1), size_t(15), size_t(16), size_t(17), size_t(64)})
    {
        Bytes t = f;
        t.insert(t.end(), pad, 0);
        ck.check(dec, t, "frame longer than 64 KiB zero padded", mix64(sb, 2));
    }
    c.count("frames_longer_than_64KiB", 12);
}

inline void randomCase(Ctx& c, long idx)
{
    Rng r = c.caseRng(idx);
    size_t k = r.chance(1, 8) ? 0 : r.range(1, 6);
    FrameSpec s = genSpec(r, -1, k);
    Bytes f = buildFrame(s.ver, s.dev, s.mt, s.stream, s.seq, s.msgs);
    Checker ck{c};
    ASAM::CMP::Decoder dec;
    prime(dec, r, s.dev, s.stream);
    uint64_t sb = specSig(s);
    ck.check(dec, f, "random frame", sb);
    if (r.chance(1, 2) && !f.empty())
    {
        Bytes t(f.begin(), f.begin() + static_cast<long>(r.below(f.size())));
        ck.check(dec, t, "frame cut short", mix64(sb, 1));
        c.count("cut_points");
    }
    if (r.chance(1, 3))
    {
        Bytes t = f;
        t.insert(t.end(), r.range(1, 64), 0);
        ck.check(dec, t, "zero padded frame", mix64(sb, 2));
        c.count("zero_paddings");
    }
    // the same frame again on the same decoder: unsegmented decoding is history independent
    ck.check(dec, f, "random frame repeated", sb);
    if (r.chance(1, 6))
    {
        // a frame that reads as a well-formed message under BOTH layouts: a valid TECMP frame whose first byte (the CMP
        // version) is not 0 and whose bytes 20..23 (inside the TECMP timestamp) are a CMP flags / payload type / length
        // triple that tiles the frame. With a non-zero first byte it is a CMP frame and nothing else.
        Bytes d = genTecmpFrame(r);
        if (d.size() > 28)
        {
            d[0] = r.pick<uint8_t>({1, 2, 3, 0x10, 0xFF});
            d[20] = static_cast<uint8_t>(r.below(4)) & 0x03;  // recalc / insync only: no error flag, no segment bits
            d[21] = r.chance(1, 2) ? static_cast<uint8_t>(r.range(3, 255)) : static_cast<uint8_t>(r.range(1, 2));
            size_t len = d.size() - 24;
            if (r.chance(1, 3))
                len -= r.below(std::min<size_t>(len, 4));
            wire::set16(d.data() + 22, static_cast<uint16_t>(len));
            ASAM::CMP::Decoder fresh;
            ck.check(r.chance(1, 2) ? dec : fresh, d, "frame that is also a well-formed TECMP frame", mix64(0xD0A1, d[5] * 256u + d[21]));
            c.count("frames_well_formed_under_both_layouts");
        }
    }
    c.sample("random frame mt=" + std::to_string(s.mt) + " msgs=" + std::to_string(k) + " frame=" + hex(f, 120), 4);
}

constexpr long kKindSweeps = K_COUNT * 4;
constexpr long kFieldSweeps = 3;
constexpr long kValiditySweeps = 7;
constexpr long kInnerLengthSweeps = 21;
// deterministic: "a decoder with any history" - here one that holds 1100 / 4200 / 70 000 unfinished reassemblies of as many
// endpoints (device ids spread over the id space, all 256 streams); frames of every kind from other endpoints, and from endpoints
// that have a message in progress, must be reported exactly as on a fresh decoder
inline void massHistory(Ctx& c, long j)
{
    static const size_t ns[] = {1100, 4200, 70000};
    const size_t n = ns[j % 3];
    Rng r = c.fixedRng(j, 47);
    ASAM::CMP::Decoder dec;
    for (size_t i = 0; i < n; ++i)
    {
        GMsg m;
        m.ts = i;
        m.idWord = static_cast<uint32_t>(i);
        m.ptype = 0x51;
        m.flags = wire::SEG_FIRST;
        m.payload = Bytes(8, static_cast<uint8_t>(i));
        Bytes f = buildFrame(1, static_cast<uint16_t>((i / 256) * 239 + 5), wire::MT_DATA, static_cast<uint8_t>(i % 256), static_cast<uint16_t>(i), {m});
        auto got = dec.decode(f.data(), f.size());
        if (!got.empty())
            c.violation("C04:surplus-packet", "a first segment delivered a packet", "mass history");
    }
    Checker ck{c};
    for (int i = 0; i < 80; ++i)
    {
        FrameSpec s = genSpec(r, i < K_COUNT * 2 ? i % K_COUNT : -1, static_cast<size_t>(1 + i % 4));
        if (i % 3 == 0)
        {
            // an endpoint that has a reassembly open in this decoder
            size_t e = r.below(n);
            s.dev = static_cast<uint16_t>((e / 256) * 239 + 5);
            s.stream = static_cast<uint8_t>(e % 256);
        }
        Bytes f = buildFrame(s.ver, s.dev, s.mt, s.stream, s.seq, s.msgs);
        ck.check(dec, f, "frame on a decoder that holds many unfinished reassemblies", mix64(specSig(s), 0x3a55 + static_cast<uint64_t>(j)));
    }
    c.count(n >= 65536 ? "decoders_holding_70000_unfinished_reassemblies" : "decoders_holding_thousands_of_unfinished_reassemblies");
}

constexpr long kManyMessages = 8;
constexpr long kBigFrames = 24;
constexpr long kMassHistory = 3;

inline long count(Ctx& c)
{
    return kKindSweeps + kFieldSweeps + kValiditySweeps + kInnerLengthSweeps + kManyMessages + kBigFrames + kMassHistory + (c.thorough() ? 8000000 : 300000);
}

inline void run(Ctx& c, long idx)
{
    if (idx < kKindSweeps)
        return kindSweep(c, idx);
    idx -= kKindSweeps;
    if (idx < kFieldSweeps)
        return fieldSweep(c, idx);
    idx -= kFieldSweeps;
    if (idx < kValiditySweeps)
        return validitySweep(c, idx);
    idx -= kValiditySweeps;
    if (idx < kInnerLengthSweeps)
        return innerLengthSweep(c, idx);
    idx -= kInnerLengthSweeps;
    if (idx < kManyMessages)
        return manyMessages(c, idx);
    idx -= kManyMessages;
    if (idx < kBigFrames)
        return bigFrames(c, idx);
    idx -= kBigFrames;
    if (idx < kMassHistory)
        return massHistory(c, idx);
    randomCase(c, idx + kKindSweeps + kFieldSweeps + kValiditySweeps + kInnerLengthSweeps + kManyMessages + kBigFrames + kMassHistory);
}

}  // namespace c04
}  // namespace vf
