// C13: payload builders store data faithfully and produce self-valid payloads.
// A shadow of the logical content (wire-model structs) follows every setData / header setter call; after each
// setData the object's raw bytes must equal the wire model's serialisation of the shadow (=> depends only on
// the final logical content), getters must return what was supplied, the own validator and the decoder accept it.
#pragma once
#include "failpoint.h"
#include <asam_cmp/decoder.h>

#include "accessors.h"
#include "dec_common.h"
#include "driver.h"
#include "gen.h"
#include "wire.h"

namespace vf {
namespace c13 {

// One builder call in sixteen runs with an allocation failpoint (one of the call's first three allocations fails). A call that
// leaves by std::bad_alloc ends the sequence (nothing is demanded of an object whose builder threw); a call that COMPLETES
// although an allocation failed inside it - the library caught the failure and took another path - is judged like any other.
template <typename F>
inline bool builderCall(Ctx& c, Rng& r, F&& call)
{
    if (!r.chance(1, 16))
    {
        call();
        return true;
    }
    const long at = static_cast<long>(r.below(3));
    bool threw = false, fired = false;
    {
        vf::fp::FailAt f(at);  // (nothing of the harness may allocate inside this scope)
        try
        {
            call();
        }
        catch (const std::bad_alloc&)
        {
            threw = true;
        }
        fired = f.fired();
    }
    if (threw)
    {
        c.count("builder_calls_left_by_an_allocation_failure");
        return false;
    }
    c.count(fired ? "builder_calls_that_completed_although_an_allocation_failed" : "builder_calls_whose_failpoint_was_not_reached");
    return true;
}


using wire::Bytes;

struct Checker
{
    Ctx& c;
    std::string cls;
    std::string history;

    void fail(const std::string& key, const std::string& d)
    {
        if (c.prop == "C13")
            c.violation("C13:" + key + ":" + cls, d, cls + " history: " + history);
        // C11 reuses these executions for "a value written through setData reads back as that value and header fields set
        // earlier are untouched"
        else if (c.prop == "C11" && (key == "string-read-back" || key == "vendor-data-read-back" || key == "data-read-back" || key == "stream-ids-read-back" ||
                                     key == "header-field-lost-by-setData" || key == "length-fields"))
            c.violation("C11:read-back-differs:" + cls + ".setData(" + key + ")", d, cls + " history: " + history);
        // C12 reuses these executions for the layout of the variable-length parts setData writes (length prefixes,
        // data, NUL / zero padding at the offsets the layout prescribes)
        else if (c.prop == "C12" && (key == "raw-bytes-depend-on-history-or-differ-from-content" || key == "string-not-nul-terminated-or-padded"))
            c.violation("C12:variable-part-not-at-layout-position:" + cls, d, cls + " history: " + history);
    }

    template <typename P>
    void common(const P& obj, const Bytes& expectRaw, const Bytes* dlcMask, uint8_t mt, uint8_t pt, bool (*validator)(const uint8_t*, size_t))
    {
        ++c.evaluations;
        const uint8_t* r = obj.getRawPayload();
        Bytes raw(r, r + obj.getLength());
        Bytes a = raw, e = expectRaw;
        if (dlcMask && a.size() > 14 && e.size() > 14)
            a[14] = e[14] = 0;  // no DLC code exists for this data length: only the length field is checked
        if (a != e)
        {
            size_t k = 0;
            while (k < a.size() && k < e.size() && a[k] == e[k])
                ++k;
            char b[200];
            snprintf(b, sizeof b, "raw bytes differ from the serialisation of the final logical content at offset %zu (object %zu bytes, expected %zu)", k, raw.size(), expectRaw.size());
            fail("raw-bytes-depend-on-history-or-differ-from-content", std::string(b) + " object=" + hex(raw, 120) + " expected=" + hex(expectRaw, 120));
        }
        if (!validator(raw.data(), raw.size()))
            fail("own-validity-check-rejects-built-payload", "isValidPayload(own bytes) is false; raw=" + hex(raw, 120));
        // through a wire-model frame into the decoder
        if (raw.size() <= 65535)
        {
            GMsg m;
            m.ts = 5;
            m.idWord = 6;
            m.ptype = pt;
            m.payload = raw;
            Bytes f = buildFrame(1, 1, mt, 0, 1, {m});
            ASAM::CMP::Decoder dec;
            auto got = decodeCopy(dec, f);
            if (got.size() != 1 || !got[0] || !got[0]->isValid())
                fail("decoder-rejects-built-payload", "decoder returned " + std::to_string(got.size()) + " packets / invalid; raw=" + hex(raw, 120));
            else
            {
                const auto& pl = got[0]->getPayload();
                if (pl.getLength() != raw.size() || (raw.size() && memcmp(pl.getRawPayload(), raw.data(), raw.size()) != 0))
                    fail("decoded-bytes-differ-from-built-payload", "raw=" + hex(raw, 120));
                AccessResult ar;
                accessTyped(ar, pl);
                if (!ar.badView.empty())
                    fail("decoded-built-payload-view-outside", ar.detail);
            }
        }
        c.count("setdata_calls_checked");
    }
};

// the payload object the builder sequence works on: a stand-alone object of the typed class, or - the idiom of the
// repository's example and tests - the payload stored inside a Packet (where it lives as a plain Payload), edited in
// place through static_cast<TypedPayload&>(packet.getPayload())
template <typename P>
struct Holder
{
    P own;
    ASAM::CMP::Packet pk;
    P* p = &own;
    Holder(Ctx& c, bool inPacket, std::string& history)
    {
        if (inPacket)
        {
            pk.setPayload(P());
            p = &static_cast<P&>(pk.getPayload());
            history += "payload-stored-in-a-Packet-and-edited-through-getPayload() ";
            c.count("sequences_on_a_payload_stored_inside_a_packet");
        }
    }
};

inline Bytes someData(Rng& r, size_t n)
{
    return r.bytes(n);
}

inline size_t pickLen8(Rng& r)
{
    unsigned w = static_cast<unsigned>(r.below(10));
    if (w < 4)
        return r.below(9);
    if (w < 6)
        return r.pick<size_t>({12, 16, 20, 24, 32, 48, 64});
    if (w < 7)
        return r.pick<size_t>({0, 255, 254, 9, 63, 65});
    return r.below(256);
}

inline size_t pickLen16(Rng& r)
{
    unsigned w = static_cast<unsigned>(r.below(20));
    if (w < 10)
        return r.below(71);
    if (w < 13)
        return r.range(1499, 1501);
    if (w < 14)
        return r.pick<size_t>({65528, 65529});
    if (w < 15)
        return r.pick<size_t>({65519, 65518, 65517});
    return r.logRange(1, 20000);
}

template <typename P>
void canLike(Ctx& c, Rng& r, bool fd, long forcedLen)
{
    Checker ck{c, fd ? "CanFdPayload" : "CanPayload", ""};
    Holder<P> hold(c, forcedLen < 0 ? r.chance(1, 3) : (forcedLen % 4 == 2), ck.history);
    P& obj = *hold.p;
    wire::Can sh;
    if (forcedLen < 0 ? r.chance(1, 3) : (forcedLen % 3 == 1))
    {
        // prior content that did not come from setData: an object built from wire bytes (as the decoder produces them),
        // error free but with an arbitrary DLC / reserved bits, possibly of exactly the length that is set next
        Bytes raw = genPayload(fd ? K_CANFD : K_CAN, 16 + (forcedLen >= 0 ? static_cast<size_t>(forcedLen) : pickLen8(r)), r);
        raw[14] = static_cast<uint8_t>(r.below(16));
        wire::set16(raw.data() + 2, 0);
        wire::set32(raw.data() + 8, wire::get32(raw.data() + 8) & (fd ? 0xC1FFFFFFu : 0x80007FFFu));
        obj = P(raw.data(), raw.size());
        sh = wire::Can::parse(raw.data(), raw.size(), fd);
        ck.history += "constructed-from-wire-bytes(len=" + std::to_string(raw.size() - 16) + ",dlc=" + std::to_string(raw[14]) + ") ";
        c.count("prior_content_from_wire_bytes");
    }
    size_t steps = forcedLen >= 0 ? 1 : r.range(1, 6);
    size_t prevLen = 0;
    for (size_t i = 0; i < steps; ++i)
    {
        // some header setters first
        size_t hs = r.below(4);
        for (size_t k = 0; k < hs; ++k)
        {
            switch (r.below(6))
            {
                case 0: sh.flags = static_cast<uint16_t>(r.next() & 0x3C00); obj.setFlags(sh.flags); ck.history += "setFlags "; break;
                case 1: sh.id = static_cast<uint32_t>(r.next()) & 0x1FFFFFFF; obj.setId(sh.id); ck.history += "setId "; break;
                case 2: sh.ide = r.chance(1, 2); obj.setIde(sh.ide); ck.history += "setIde "; break;
                case 3: sh.crc = static_cast<uint32_t>(r.next()) & (fd ? 0x1FFFFF : 0x7FFF); obj.setCrc(static_cast<decltype(obj.getCrc())>(sh.crc)); ck.history += "setCrc "; break;
                case 4: sh.crcSupport = r.chance(1, 2); obj.setCrcSupport(sh.crcSupport); ck.history += "setCrcSupport "; break;
                default: sh.rsvd = r.chance(1, 2); obj.setRsvd(sh.rsvd); ck.history += "setRsvd "; break;
            }
        }
        size_t n = forcedLen >= 0 ? static_cast<size_t>(forcedLen) : pickLen8(r);
        Bytes d = someData(r, n);
        if (!builderCall(c, r, [&] { obj.setData(n || r.chance(1, 2) ? d.data() : nullptr, static_cast<uint8_t>(n)); }))
            return;
        ck.history += "setData(" + std::to_string(n) + ") ";
        sh.data = d;
        sh.dataLength = static_cast<uint8_t>(n);
        int code = wire::canDlcForLength(static_cast<unsigned>(n));
        sh.dlc = static_cast<uint8_t>(code >= 0 ? code : 0);
        Bytes expect = sh.serialize(fd);
        Bytes mask;
        ck.common(obj, expect, code < 0 ? &mask : nullptr, wire::MT_DATA, fd ? wire::PT_CANFD : wire::PT_CAN, fd ? &ASAM::CMP::CanFdPayload::isValidPayload : &ASAM::CMP::CanPayload::isValidPayload);
        if (obj.getDataLength() != n || obj.getLength() != 16 + n)
            ck.fail("length-fields", "getDataLength()=" + std::to_string(obj.getDataLength()) + " getLength()=" + std::to_string(obj.getLength()) + " for " + std::to_string(n) + " data bytes");
        if (code >= 0 && obj.getDlc() != code)
            ck.fail("dlc-code", "getDlc()=" + std::to_string(obj.getDlc()) + " for data length " + std::to_string(n) + ", standard code " + std::to_string(code));
        if (n && (obj.getData() == nullptr || memcmp(obj.getData(), d.data(), n) != 0))
            ck.fail("data-read-back", "getData() does not return the bytes supplied");
        if (obj.getFlags() != sh.flags || obj.getId() != sh.id || obj.getIde() != sh.ide || obj.getCrcSupport() != sh.crcSupport || obj.getRsvd() != sh.rsvd || static_cast<uint32_t>(obj.getCrc()) != sh.crc)
            ck.fail("header-field-lost-by-setData", "a header field set earlier changed");
        c.sig(mix64(hashStr(ck.cls), mix64(prevLen > n ? 2 : (prevLen < n ? 1 : 0), mix64(code >= 0 ? 1 : 0, (n % 2) * 4 + (prevLen % 2) * 2 + (i ? 1 : 0)))) ^ (n << 8));
        prevLen = n;
    }
}

inline void lin(Ctx& c, Rng& r, long forcedLen)
{
    Checker ck{c, "LinPayload", ""};
    Holder<ASAM::CMP::LinPayload> hold(c, forcedLen < 0 ? r.chance(1, 3) : (forcedLen % 4 == 2), ck.history);
    ASAM::CMP::LinPayload& obj = *hold.p;
    wire::Lin sh;
    if (forcedLen < 0 ? r.chance(1, 3) : (forcedLen % 3 == 1))
    {
        Bytes raw = genPayload(K_LIN, 8 + (forcedLen >= 0 ? static_cast<size_t>(forcedLen) : pickLen8(r)), r);
        wire::set16(raw.data() + 2, 0);
        raw[5] = 0;
        obj = ASAM::CMP::LinPayload(raw.data(), raw.size());
        sh = wire::Lin::parse(raw.data(), raw.size());
        ck.history += "constructed-from-wire-bytes(len=" + std::to_string(raw.size() - 8) + ") ";
        c.count("prior_content_from_wire_bytes");
    }
    size_t steps = forcedLen >= 0 ? 1 : r.range(1, 6);
    size_t prevLen = 0;
    for (size_t i = 0; i < steps; ++i)
    {
        size_t hs = r.below(4);
        for (size_t k = 0; k < hs; ++k)
        {
            switch (r.below(4))
            {
                case 0: sh.flags = static_cast<uint16_t>(r.next() & 0x01FF); obj.setFlags(sh.flags); ck.history += "setFlags "; break;
                case 1: { uint8_t id = static_cast<uint8_t>(r.below(64)); sh.pid = static_cast<uint8_t>((sh.pid & 0xC0) | id); obj.setLinId(id); ck.history += "setLinId "; break; }
                case 2: { uint8_t p = static_cast<uint8_t>(r.below(4)); sh.pid = static_cast<uint8_t>((sh.pid & 0x3F) | (p << 6)); obj.setParityBits(p); ck.history += "setParityBits "; break; }
                default: sh.checksum = r.byte(); obj.setChecksum(sh.checksum); ck.history += "setChecksum "; break;
            }
        }
        size_t n = forcedLen >= 0 ? static_cast<size_t>(forcedLen) : pickLen8(r);
        Bytes d = someData(r, n);
        if (!builderCall(c, r, [&] { obj.setData(n || r.chance(1, 2) ? d.data() : nullptr, static_cast<uint8_t>(n)); }))
            return;
        ck.history += "setData(" + std::to_string(n) + ") ";
        sh.data = d;
        sh.dataLength = static_cast<uint8_t>(n);
        ck.common(obj, sh.serialize(), nullptr, wire::MT_DATA, wire::PT_LIN, &ASAM::CMP::LinPayload::isValidPayload);
        if (obj.getDataLength() != n || obj.getLength() != 8 + n)
            ck.fail("length-fields", "getDataLength()=" + std::to_string(obj.getDataLength()) + " getLength()=" + std::to_string(obj.getLength()));
        if (n && (obj.getData() == nullptr || memcmp(obj.getData(), d.data(), n) != 0))
            ck.fail("data-read-back", "getData() does not return the bytes supplied");
        if (obj.getFlags() != sh.flags || obj.getLinId() != (sh.pid & 0x3F) || obj.getParityBits() != (sh.pid >> 6) || obj.getChecksum() != sh.checksum)
            ck.fail("header-field-lost-by-setData", "a header field set earlier changed");
        c.sig(mix64(hashStr(ck.cls), (prevLen > n ? 2 : (prevLen < n ? 1 : 0)) * 8 + (n % 2) * 4 + (prevLen % 2) * 2 + (i ? 1 : 0)) ^ (n << 8));
        prevLen = n;
    }
}

inline void eth(Ctx& c, Rng& r, long forcedLen)
{
    Checker ck{c, "EthernetPayload", ""};
    Holder<ASAM::CMP::EthernetPayload> hold(c, forcedLen < 0 ? r.chance(1, 3) : (forcedLen % 4 == 2), ck.history);
    ASAM::CMP::EthernetPayload& obj = *hold.p;
    wire::Eth sh;
    if (forcedLen < 0 ? r.chance(1, 3) : (forcedLen % 3 == 1))
    {
        Bytes raw = genPayload(K_ETH, 6 + (forcedLen >= 0 ? static_cast<size_t>(forcedLen) : r.below(100)), r);
        wire::set16(raw.data() + 2, 0);
        obj = ASAM::CMP::EthernetPayload(raw.data(), raw.size());
        sh.flags = wire::get16(raw.data());
        ck.history += "constructed-from-wire-bytes(len=" + std::to_string(raw.size() - 6) + ") ";
        c.count("prior_content_from_wire_bytes");
    }
    size_t steps = forcedLen >= 0 ? 1 : r.range(1, 5);
    size_t prevLen = 0;
    for (size_t i = 0; i < steps; ++i)
    {
        if (r.chance(1, 2))
        {
            sh.flags = static_cast<uint16_t>(r.next() & 0x00C0);
            obj.setFlags(sh.flags);
            ck.history += "setFlags ";
        }
        size_t n = forcedLen >= 0 ? static_cast<size_t>(forcedLen) : pickLen16(r);
        Bytes d = someData(r, n);
        if (!builderCall(c, r, [&] { obj.setData(n || r.chance(1, 2) ? d.data() : nullptr, static_cast<uint16_t>(n)); }))
            return;
        ck.history += "setData(" + std::to_string(n) + ") ";
        sh.data = d;
        sh.dataLength = static_cast<uint16_t>(n);
        ck.common(obj, sh.serialize(), nullptr, wire::MT_DATA, wire::PT_ETHERNET, &ASAM::CMP::EthernetPayload::isValidPayload);
        if (obj.getDataLength() != n || obj.getLength() != 6 + n)
            ck.fail("length-fields", "getDataLength()=" + std::to_string(obj.getDataLength()) + " getLength()=" + std::to_string(obj.getLength()));
        if (n && (obj.getData() == nullptr || memcmp(obj.getData(), d.data(), n) != 0))
            ck.fail("data-read-back", "getData() does not return the bytes supplied");
        if (obj.getFlags() != sh.flags)
            ck.fail("header-field-lost-by-setData", "flags changed");
        size_t cl = n < 71 ? n : (n < 2000 ? 71 + n % 7 : 80 + n % 3);
        c.sig(mix64(hashStr(ck.cls), mix64(cl, (prevLen > n ? 2 : (prevLen < n ? 1 : 0)) * 2 + (i ? 1 : 0))));
        prevLen = n;
    }
}

inline void analog(Ctx& c, Rng& r, long forcedLen)
{
    Checker ck{c, "AnalogPayload", ""};
    Holder<ASAM::CMP::AnalogPayload> hold(c, forcedLen < 0 ? r.chance(1, 3) : (forcedLen % 4 == 2), ck.history);
    ASAM::CMP::AnalogPayload& obj = *hold.p;
    wire::Analog sh;
    if (forcedLen < 0 ? r.chance(1, 3) : (forcedLen % 3 == 1))
    {
        Bytes raw = genPayload(K_ANALOG, 16 + (forcedLen >= 0 ? static_cast<size_t>(forcedLen) : r.below(100)), r);
        raw[2] = 0;
        obj = ASAM::CMP::AnalogPayload(raw.data(), raw.size());
        sh.flags = wire::get16(raw.data());
        sh.unit = raw[3];
        sh.intervalBits = wire::get32(raw.data() + 4);
        sh.offsetBits = wire::get32(raw.data() + 8);
        sh.scalarBits = wire::get32(raw.data() + 12);
        ck.history += "constructed-from-wire-bytes ";
        c.count("prior_content_from_wire_bytes");
    }
    size_t steps = forcedLen >= 0 ? 1 : r.range(1, 5);
    size_t prevLen = 0;
    for (size_t i = 0; i < steps; ++i)
    {
        size_t hs = r.below(4);
        for (size_t k = 0; k < hs; ++k)
        {
            switch (r.below(5))
            {
                case 0:
                {
                    bool i32 = r.chance(1, 2);
                    sh.flags = static_cast<uint16_t>((sh.flags & ~3) | (i32 ? 1 : 0));
                    obj.setSampleDt(i32 ? ASAM::CMP::AnalogPayload::SampleDt::aInt32 : ASAM::CMP::AnalogPayload::SampleDt::aInt16);
                    ck.history += "setSampleDt ";
                    break;
                }
                case 1: sh.unit = static_cast<uint8_t>(r.below(0x55)); obj.setUnit(static_cast<ASAM::CMP::AnalogPayload::Unit>(sh.unit)); ck.history += "setUnit "; break;
                case 2: { float f = static_cast<float>(r.below(100000)) / 7.0f; sh.intervalBits = wire::f32bits(f); obj.setSampleInterval(f); ck.history += "setSampleInterval "; break; }
                case 3: { float f = -static_cast<float>(r.below(1000)) / 3.0f; sh.offsetBits = wire::f32bits(f); obj.setSampleOffset(f); ck.history += "setSampleOffset "; break; }
                default: { float f = static_cast<float>(r.below(1000)) * 0.001f; sh.scalarBits = wire::f32bits(f); obj.setSampleScalar(f); ck.history += "setSampleScalar "; break; }
            }
        }
        size_t n = forcedLen >= 0 ? static_cast<size_t>(forcedLen) : (r.chance(1, 20) ? r.pick<size_t>({65519, 65518, 65516}) : pickLen16(r) % 4000);
        Bytes d = someData(r, n);
        if (!builderCall(c, r, [&] { obj.setData(n || r.chance(1, 2) ? d.data() : nullptr, n); }))
            return;
        ck.history += "setData(" + std::to_string(n) + ") ";
        sh.data = d;
        ck.common(obj, sh.serialize(), nullptr, wire::MT_DATA, wire::PT_ANALOG, &ASAM::CMP::AnalogPayload::isValidPayload);
        size_t ss = (sh.flags & 3) ? 4 : 2;
        if (obj.getLength() != 16 + n || obj.getSamplesCount() != n / ss)
            ck.fail("length-fields", "getSamplesCount()=" + std::to_string(obj.getSamplesCount()) + " getLength()=" + std::to_string(obj.getLength()) + " for " + std::to_string(n) + " bytes of " + std::to_string(ss) + "-byte samples");
        if (n / ss && (obj.getData() == nullptr || memcmp(obj.getData(), d.data(), (n / ss) * ss) != 0))
            ck.fail("data-read-back", "getData() does not return the samples supplied");
        if (wire::f32bits(obj.getSampleInterval()) != sh.intervalBits || wire::f32bits(obj.getSampleOffset()) != sh.offsetBits || wire::f32bits(obj.getSampleScalar()) != sh.scalarBits ||
            static_cast<uint8_t>(obj.getUnit()) != sh.unit || obj.getFlags() != sh.flags)
            ck.fail("header-field-lost-by-setData", "a header field set earlier changed");
        size_t cl = n < 71 ? n : 71 + n % 5;
        c.sig(mix64(hashStr(ck.cls), mix64(cl, (prevLen > n ? 2 : (prevLen < n ? 1 : 0)) * 4 + ss / 2 + (i ? 8 : 0))));
        prevLen = n;
    }
}

inline std::string noNulString(Rng& r, size_t n)
{
    std::string s(n, 'a');
    for (auto& ch : s)
        ch = static_cast<char>(r.range(1, 255));
    return s;
}

inline void cm(Ctx& c, Rng& r, long forced)
{
    Checker ck{c, "CaptureModulePayload", ""};
    Holder<ASAM::CMP::CaptureModulePayload> hold(c, forced < 0 ? r.chance(1, 3) : (forced % 4 == 2), ck.history);
    ASAM::CMP::CaptureModulePayload& obj = *hold.p;
    wire::Cm sh;
    if (forced < 0 ? r.chance(1, 3) : (forced % 3 == 1))
    {
        Bytes raw = genPayload(K_CM, 44 + r.below(120), r);
        raw[24] = 0;
        obj = ASAM::CMP::CaptureModulePayload(raw.data(), raw.size());
        sh.uptime = wire::get64(raw.data());
        sh.gmIdentity = wire::get64(raw.data() + 8);
        sh.gmClockQuality = wire::get32(raw.data() + 16);
        sh.utcOffset = wire::get16(raw.data() + 20);
        sh.timeSource = raw[22];
        sh.domain = raw[23];
        sh.gptpFlags = raw[25];
        ck.history += "constructed-from-wire-bytes ";
        c.count("prior_content_from_wire_bytes");
    }
    size_t steps = forced >= 0 ? 1 : r.range(1, 5);
    size_t prevTotal = 0;
    for (size_t i = 0; i < steps; ++i)
    {
        size_t hs = r.below(4);
        for (size_t k = 0; k < hs; ++k)
        {
            switch (r.below(7))
            {
                case 0: sh.uptime = r.next(); obj.setUptime(sh.uptime); break;
                case 1: sh.gmIdentity = r.next(); obj.setGmIdentity(sh.gmIdentity); break;
                case 2: sh.gmClockQuality = static_cast<uint32_t>(r.next()); obj.setGmClockQuality(sh.gmClockQuality); break;
                case 3: sh.utcOffset = static_cast<uint16_t>(r.next()); obj.setCurrentUtcOffset(sh.utcOffset); break;
                case 4: sh.timeSource = r.byte(); obj.setTimeSource(sh.timeSource); break;
                case 5: sh.domain = r.byte(); obj.setDomainNumber(sh.domain); break;
                default: sh.gptpFlags = r.byte(); obj.setGptpFlags(sh.gptpFlags); break;
            }
            ck.history += "hdr ";
        }
        auto len = [&](int which) -> size_t {
            if (forced >= 0)
            {
                // forced = length of string `which0` in the low bits: all four strings sweep 0..1000 in turn, each parity
                long w = forced / 1001, l = forced % 1001;
                return (w % 4 == which) ? static_cast<size_t>(l) : static_cast<size_t>((l + which) % 3);
            }
            unsigned x = static_cast<unsigned>(r.below(10));
            return x < 5 ? r.below(12) : (x < 9 ? r.below(80) : r.below(1001));
        };
        sh.description = noNulString(r, len(0));
        sh.serial = noNulString(r, len(1));
        sh.hwVersion = noNulString(r, len(2));
        sh.swVersion = noNulString(r, len(3));
        sh.vendorData = r.bytes(forced >= 0 ? static_cast<size_t>(forced % 301) : (r.chance(1, 3) ? 0 : r.below(301)));
        if (forced >= 0 ? (forced % 500 == 7) : r.chance(1, 200))
        {
            // length fields with the top bit set (32768 and more): legal, the whole payload still fits 65535 bytes
            static const size_t big[] = {32766, 32767, 32768, 32769, 40000, 60000};
            size_t b = big[(forced >= 0 ? static_cast<size_t>(forced / 500) : r.below(6)) % 6];
            sh.description = sh.description.substr(0, 8);
            sh.hwVersion = sh.hwVersion.substr(0, 8);
            sh.swVersion = sh.swVersion.substr(0, 8);
            if ((forced >= 0 ? forced / 3000 : static_cast<long>(r.below(2))) % 2)
            {
                sh.serial = noNulString(r, b > 33000 ? 33000 : b);
                sh.vendorData = r.bytes(10);
            }
            else
            {
                sh.serial = sh.serial.substr(0, 8);
                sh.vendorData = r.bytes(b);
            }
            c.count("length_fields_with_top_bit_set");
        }
        std::vector<uint8_t> vd(sh.vendorData.begin(), sh.vendorData.end());
        // a string_view is a pointer and a length: the byte behind it is not part of the value. Hand the strings over as
        // (0) std::string (NUL behind it), (1) slices of a longer text whose next character is not NUL, (2) views over
        // exact-size heap blocks without terminator (ASan sees a read of the byte behind them)
        unsigned viewKind = forced >= 0 ? static_cast<unsigned>(forced % 3) : static_cast<unsigned>(r.below(3));
        if (viewKind == 0)
        {
            if (!builderCall(c, r, [&] { obj.setData(sh.description, sh.serial, sh.hwVersion, sh.swVersion, vd); }))
                return;
        }
        else if (viewKind == 1)
        {
            std::string big = "<" + sh.description + "|" + sh.serial + "#" + sh.hwVersion + "$" + sh.swVersion + ">";
            size_t o1 = 1, o2 = o1 + sh.description.size() + 1, o3 = o2 + sh.serial.size() + 1, o4 = o3 + sh.hwVersion.size() + 1;
            std::string_view all(big);
            obj.setData(all.substr(o1, sh.description.size()), all.substr(o2, sh.serial.size()), all.substr(o3, sh.hwVersion.size()), all.substr(o4, sh.swVersion.size()), vd);
            c.count("string_views_that_are_slices");
        }
        else
        {
            auto exact = [](const std::string& t) {
                char* p = new char[t.size() ? t.size() : 1];
                if (!t.empty())
                    memcpy(p, t.data(), t.size());
                return p;
            };
            char *a = exact(sh.description), *b2 = exact(sh.serial), *c2 = exact(sh.hwVersion), *d2 = exact(sh.swVersion);
            obj.setData(std::string_view(a, sh.description.size()), std::string_view(b2, sh.serial.size()), std::string_view(c2, sh.hwVersion.size()), std::string_view(d2, sh.swVersion.size()), vd);
            delete[] a;
            delete[] b2;
            delete[] c2;
            delete[] d2;
            c.count("string_views_over_unterminated_buffers");
        }
        ck.history += "setData(" + std::to_string(sh.description.size()) + "," + std::to_string(sh.serial.size()) + "," + std::to_string(sh.hwVersion.size()) + "," + std::to_string(sh.swVersion.size()) + "," + std::to_string(vd.size()) + ") ";
        Bytes expect = sh.serialize();
        ck.common(obj, expect, nullptr, wire::MT_STATUS, wire::PT_CM_STATUS, &ASAM::CMP::CaptureModulePayload::isValidPayload);
        if (obj.getDeviceDescription() != sh.description || obj.getSerialNumber() != sh.serial || obj.getHardwareVersion() != sh.hwVersion || obj.getSoftwareVersion() != sh.swVersion)
            ck.fail("string-read-back", "a string getter does not return the string supplied");
        if (obj.getVendorDataLength() != vd.size() || (vd.size() && (obj.getVendorData() == nullptr || memcmp(obj.getVendorData(), vd.data(), vd.size()) != 0)) ||
            obj.getVendorDataStringView().size() != vd.size())
            ck.fail("vendor-data-read-back", "vendor data getters do not return the data supplied");
        if (obj.getUptime() != sh.uptime || obj.getGmIdentity() != sh.gmIdentity || obj.getGmClockQuality() != sh.gmClockQuality || obj.getCurrentUtcOffset() != sh.utcOffset ||
            obj.getTimeSource() != sh.timeSource || obj.getDomainNumber() != sh.domain || obj.getGptpFlags() != sh.gptpFlags)
            ck.fail("header-field-lost-by-setData", "a header field set earlier changed");
        // strings NUL terminated and zero padded to an even length prefix (independent walk of the raw bytes)
        {
            const uint8_t* raw = obj.getRawPayload();
            size_t n = obj.getLength(), o = wire::kCmHeader;
            const std::string* strs[4] = {&sh.description, &sh.serial, &sh.hwVersion, &sh.swVersion};
            for (int k = 0; k < 4 && o + 2 <= n; ++k)
            {
                size_t l = wire::get16(raw + o);
                o += 2;
                bool ok = (l % 2 == 0) && l >= strs[k]->size() + 1 && l <= strs[k]->size() + 2 && o + l <= n;
                for (size_t z = strs[k]->size(); ok && z < l; ++z)
                    if (raw[o + z] != 0)
                        ok = false;
                if (!ok)
                {
                    ck.fail("string-not-nul-terminated-or-padded", "string " + std::to_string(k) + " of " + std::to_string(strs[k]->size()) + " chars has length prefix " + std::to_string(l));
                    break;
                }
                o += l;
            }
        }
        size_t total = expect.size();
        c.sig(mix64(hashStr(ck.cls), mix64((sh.description.size() % 2) * 8 + (sh.serial.size() % 2) * 4 + (sh.hwVersion.size() % 2) * 2 + (sh.swVersion.size() % 2), (prevTotal > total ? 2 : (prevTotal < total ? 1 : 0)) * 4 + (vd.empty() ? 0 : 1) + (i ? 2 : 0))) ^ (sh.description.size() << 20));
        prevTotal = total;
    }
}

inline void iface(Ctx& c, Rng& r, long forced)
{
    Checker ck{c, "InterfacePayload", ""};
    Holder<ASAM::CMP::InterfacePayload> hold(c, forced < 0 ? r.chance(1, 3) : (forced % 4 == 2), ck.history);
    ASAM::CMP::InterfacePayload& obj = *hold.p;
    wire::If sh;
    if (forced < 0 ? r.chance(1, 3) : (forced % 3 == 1))
    {
        Bytes raw = genPayload(K_IF, 40 + r.below(60), r);
        wire::set16(raw.data() + 30, 0);
        obj = ASAM::CMP::InterfacePayload(raw.data(), raw.size());
        sh.interfaceId = wire::get32(raw.data());
        sh.msgTotalRx = wire::get32(raw.data() + 4);
        sh.msgTotalTx = wire::get32(raw.data() + 8);
        sh.msgDroppedRx = wire::get32(raw.data() + 12);
        sh.msgDroppedTx = wire::get32(raw.data() + 16);
        sh.errorsTotalRx = wire::get32(raw.data() + 20);
        sh.errorsTotalTx = wire::get32(raw.data() + 24);
        sh.interfaceType = raw[28];
        sh.interfaceStatus = raw[29];
        sh.featureBitmask = wire::get32(raw.data() + 32);
        ck.history += "constructed-from-wire-bytes ";
        c.count("prior_content_from_wire_bytes");
    }
    size_t steps = forced >= 0 ? 2 : r.range(1, 6);
    size_t prevIds = 0;
    for (size_t i = 0; i < steps; ++i)
    {
        size_t hs = r.below(4);
        for (size_t k = 0; k < hs; ++k)
        {
            switch (r.below(6))
            {
                case 0: sh.interfaceId = static_cast<uint32_t>(r.next()); obj.setInterfaceId(sh.interfaceId); break;
                case 1: sh.msgTotalRx = static_cast<uint32_t>(r.next()); obj.setMsgTotalRx(sh.msgTotalRx); break;
                case 2: sh.errorsTotalTx = static_cast<uint32_t>(r.next()); obj.setErrorsTotalTx(sh.errorsTotalTx); break;
                case 3: sh.interfaceType = r.byte(); obj.setInterfaceType(sh.interfaceType); break;
                case 4: sh.interfaceStatus = static_cast<uint8_t>(r.below(3)); obj.setInterfaceStatus(static_cast<ASAM::CMP::InterfacePayload::InterfaceStatus>(sh.interfaceStatus)); break;
                default: sh.featureBitmask = static_cast<uint32_t>(r.next()); obj.setFeatureSupportBitmask(sh.featureBitmask); break;
            }
            ck.history += "hdr ";
        }
        size_t ni, nv;
        if (forced >= 0)
        {
            // forced: (first count, second count) pairs 0..40 x 0..40: longer -> shorter -> every parity combination
            ni = i == 0 ? static_cast<size_t>(forced / 41) : static_cast<size_t>(forced % 41);
            nv = (static_cast<size_t>(forced) * 7 + i * 3) % 11;
        }
        else
        {
            ni = r.chance(1, 12) ? r.pick<size_t>({255, 1000, 256}) : r.below(41);
            nv = r.chance(1, 3) ? 0 : r.below(301);
        }
        if (forced >= 0 ? (forced % 140 == 3) : r.chance(1, 300))
        {
            // the largest counts the 16-bit API parameters admit (the payload then exceeds 65535 bytes, which the builder allows)
            static const size_t bigI[] = {65535, 65534, 65533, 40000, 32768, 65535};
            static const size_t bigV[] = {0, 5, 65535, 40000, 1, 65534};
            size_t q = forced >= 0 ? static_cast<size_t>(forced / 140) : r.below(6);
            ni = bigI[q % 6];
            nv = bigV[(q + i) % 6];
            c.count("stream_id_or_vendor_counts_at_the_top_of_their_range");
        }
        sh.streamIds = r.bytes(ni);
        sh.vendorData = r.bytes(nv);
        // stream ids and vendor data are given non-zero content so that a stale or skipped padding byte shows
        for (auto& b : sh.streamIds)
            b |= 1;
        if (!builderCall(c, r, [&] { obj.setData(ni || r.chance(1, 2) ? sh.streamIds.data() : nullptr, static_cast<uint16_t>(ni), nv || r.chance(1, 2) ? sh.vendorData.data() : nullptr, static_cast<uint16_t>(nv)); }))
            return;
        ck.history += "setData(ids=" + std::to_string(ni) + ",vendor=" + std::to_string(nv) + ") ";
        ck.common(obj, sh.serialize(), nullptr, wire::MT_STATUS, wire::PT_IF_STATUS, &ASAM::CMP::InterfacePayload::isValidPayload);
        if (obj.getStreamIdsCount() != ni || (ni && (obj.getStreamIds() == nullptr || memcmp(obj.getStreamIds(), sh.streamIds.data(), ni) != 0)))
            ck.fail("stream-ids-read-back", "stream id getters do not return the list supplied");
        if (obj.getVendorDataLength() != nv || (nv && (obj.getVendorData() == nullptr || memcmp(obj.getVendorData(), sh.vendorData.data(), nv) != 0)))
            ck.fail("vendor-data-read-back", "vendor data getters do not return the data supplied");
        if (obj.getInterfaceId() != sh.interfaceId || obj.getMsgTotalRx() != sh.msgTotalRx || obj.getErrorsTotalTx() != sh.errorsTotalTx || obj.getInterfaceType() != sh.interfaceType ||
            static_cast<uint8_t>(obj.getInterfaceStatus()) != sh.interfaceStatus || obj.getFeatureSupportBitmask() != sh.featureBitmask)
            ck.fail("header-field-lost-by-setData", "a header field set earlier changed");
        c.sig(mix64(hashStr(ck.cls), mix64((ni % 2) * 2 + (prevIds % 2), (prevIds > ni ? 2 : (prevIds < ni ? 1 : 0)) * 4 + (nv ? 1 : 0) + (i ? 2 : 0))) ^ (ni << 16));
        prevIds = ni;
    }
}

// explicit history independence: the final content given to a fresh object yields byte-identical raw bytes.
// (Implied by the comparison with the wire model above; this variant uses no model at all.)
inline void freshVersusUsed(Ctx& c, Rng& r)
{
    {
        ASAM::CMP::InterfacePayload used, fresh;
        Bytes a = r.bytes(r.range(2, 40)), v = r.bytes(r.below(20));
        for (auto& b : a)
            b |= 1;
        used.setData(a.data(), static_cast<uint16_t>(a.size()), v.data(), static_cast<uint16_t>(v.size()));
        size_t n2 = r.below(a.size());
        used.setData(a.data(), static_cast<uint16_t>(n2), v.data(), static_cast<uint16_t>(v.size()));
        fresh.setData(a.data(), static_cast<uint16_t>(n2), v.data(), static_cast<uint16_t>(v.size()));
        ++c.evaluations;
        if (used.getLength() != fresh.getLength() || memcmp(used.getRawPayload(), fresh.getRawPayload(), used.getLength()) != 0)
            if (c.prop == "C13") c.violation("C13:raw-bytes-depend-on-history:InterfacePayload", "used object " + hex(used.getRawPayload(), used.getLength(), 100) + " fresh object " + hex(fresh.getRawPayload(), fresh.getLength(), 100),
                        "setData(" + std::to_string(a.size()) + " ids) then setData(" + std::to_string(n2) + " ids) versus fresh setData(" + std::to_string(n2) + " ids)");
    }
    {
        ASAM::CMP::CaptureModulePayload used, fresh;
        std::string s1 = noNulString(r, r.below(30)), s2 = noNulString(r, r.below(30));
        std::vector<uint8_t> vd = r.bytes(r.below(10));
        used.setData(noNulString(r, r.below(60)), s2, s1, noNulString(r, r.below(60)), r.bytes(r.below(30)));
        used.setData(s1, s2, s2, s1, vd);
        fresh.setData(s1, s2, s2, s1, vd);
        ++c.evaluations;
        if (used.getLength() != fresh.getLength() || memcmp(used.getRawPayload(), fresh.getRawPayload(), used.getLength()) != 0)
            if (c.prop == "C13") c.violation("C13:raw-bytes-depend-on-history:CaptureModulePayload", "used and fresh object differ", "two setData calls versus one");
    }
    c.count("fresh_versus_used_comparisons", 2);
}

// deterministic sweeps: CAN / CAN-FD / LIN every length 0..255; Ethernet / analog lengths 0..70 + boundaries;
// CM every string length 0..1000 for each of the four strings; IF all (first count, second count) in 0..40 x 0..40
constexpr long kDet8 = 256 * 3;
constexpr long kDet16 = 2 * 80;
constexpr long kDetCm = 4 * 1001;
constexpr long kDetIf = 41 * 41;
inline long detCount()
{
    return kDet8 + kDet16 + kDetCm + kDetIf;
}
inline void det(Ctx& c, long j)
{
    Rng r = c.fixedRng(j, 13);
    if (j < kDet8)
    {
        long n = j % 256;
        switch (j / 256)
        {
            case 0: canLike<ASAM::CMP::CanPayload>(c, r, false, n); break;
            case 1: canLike<ASAM::CMP::CanFdPayload>(c, r, true, n); break;
            default: lin(c, r, n); break;
        }
        return;
    }
    j -= kDet8;
    if (j < kDet16)
    {
        static const long extra[] = {1499, 1500, 1501, 65528, 65529, 4096, 65519, 65518, 65517};
        long li = j % 80;
        long n = li <= 70 ? li : extra[li - 71];
        if (j / 80 == 0)
            eth(c, r, n);
        else
            analog(c, r, std::min<long>(n, 65519));
        return;
    }
    j -= kDet16;
    if (j < kDetCm)
        return cm(c, r, j);
    j -= kDetCm;
    iface(c, r, j);
}

inline void random(Ctx& c, long idx)
{
    Rng r = c.caseRng(idx);
    switch (idx % 8)
    {
        case 0: canLike<ASAM::CMP::CanPayload>(c, r, false, -1); break;
        case 1: canLike<ASAM::CMP::CanFdPayload>(c, r, true, -1); break;
        case 2: lin(c, r, -1); break;
        case 3: eth(c, r, -1); break;
        case 4: analog(c, r, -1); break;
        case 5: cm(c, r, -1); break;
        case 6: iface(c, r, -1); break;
        default: freshVersusUsed(c, r); break;
    }
    c.count("sequences");
}

inline long count(Ctx& c)
{
    return detCount() + (c.thorough() ? 8000000 : 200000);
}
inline void run(Ctx& c, long idx)
{
    if (idx < detCount())
        return det(c, idx);
    random(c, idx);
}

}  // namespace c13
}  // namespace vf
