// Canonical frames (one per shape the decoder distinguishes) used as mutation bases by C02 / fuzz corpora.
#pragma once
#include <string>
#include <vector>

#include "framegen.h"

namespace vf {

struct Canon
{
    std::string family;
    Bytes frame;
};

inline std::vector<Canon> canonicalFrames()
{
    using namespace wire;
    std::vector<Canon> v;
    Rng r(0xC0FFEE);
    // every CMP payload kind, unsegmented
    for (int k = 0; k < K_COUNT; ++k)
    {
        uint8_t mt;
        GMsg m = genMsg(r, static_cast<Kind>(k), kindMinLen(static_cast<Kind>(k)) + 6, mt);
        v.push_back({std::string("cmp-") + kindName(k), buildFrame(1, 0x0102, mt, 3, 10, {m})});
    }
    // aggregated data frame, aggregated status frame
    {
        uint8_t mt;
        std::vector<GMsg> ms = {genMsg(r, K_CAN, 24, mt), genMsg(r, K_ETH, 30, mt), genMsg(r, K_LIN, 12, mt)};
        v.push_back({"cmp-aggregated-data", buildFrame(1, 1, MT_DATA, 0, 11, ms)});
        std::vector<GMsg> ss = {genMsg(r, K_CM, 60, mt), genMsg(r, K_IF, 50, mt)};
        v.push_back({"cmp-aggregated-status", buildFrame(1, 1, MT_STATUS, 0, 12, ss)});
    }
    // each segment kind, with and without trailing bytes
    for (int s = 0; s < 3; ++s)
    {
        uint8_t mt;
        GMsg m = genMsg(r, K_GEN_DATA, 20, mt);
        m.flags |= (s == 0 ? SEG_FIRST : (s == 1 ? SEG_MID : SEG_LAST));
        static const char* n[] = {"cmp-first-segment", "cmp-mid-segment", "cmp-last-segment"};
        v.push_back({n[s], buildFrame(1, 1, MT_DATA, 1, static_cast<uint16_t>(20 + s), {m})});
        v.push_back({std::string(n[s]) + "-trailing", buildFrame(1, 1, MT_DATA, 1, static_cast<uint16_t>(20 + s), {m}, Bytes(9, 0xEE))});
    }
    // unsegmented message followed by a first segment in the same frame
    {
        uint8_t mt;
        GMsg a = genMsg(r, K_GEN_DATA, 8, mt), b = genMsg(r, K_GEN_DATA, 8, mt);
        b.flags |= SEG_FIRST;
        v.push_back({"cmp-unsegmented-then-first", buildFrame(1, 1, MT_DATA, 1, 30, {a, b})});
    }
    // inconsistent typed payloads and error-in-payload
    for (int k = 0; k <= K_IF; ++k)
    {
        uint8_t mt;
        GMsg m = genMsg(r, static_cast<Kind>(k), 30, mt);
        m.payload = genInconsistentPayload(static_cast<Kind>(k), r);
        if (m.payload.empty())
            m.payload.push_back(0);
        v.push_back({std::string("cmp-inconsistent-") + kindName(k), buildFrame(1, 2, mt, 0, 40, {m})});
    }
    {
        uint8_t mt;
        GMsg m = genMsg(r, K_GEN_DATA, 8, mt);
        m.flags |= CF_ERROR;
        v.push_back({"cmp-error-in-payload", buildFrame(1, 2, MT_DATA, 0, 41, {m})});
        v.push_back({"cmp-header-only", frameHeader(1, 2, MT_DATA, 0, 42)});
        GMsg z = genMsg(r, K_GEN_DATA, 8, mt);
        v.push_back({"cmp-zero-padded", buildFrame(1, 2, MT_DATA, 0, 43, {z}, Bytes(24, 0))});
    }
    // TECMP
    auto tec = [&](const char* name, uint8_t msgType, uint16_t dataType, const Bytes& pl) {
        Tecmp t;
        t.device = 7;
        t.counter = 5;
        t.msgType = msgType;
        t.dataType = dataType;
        t.interfaceId = 0x11223344;
        t.timestamp = 0x0102030405060708ULL;
        t.payloadLength = static_cast<uint16_t>(pl.size());
        v.push_back({name, t.frame(pl)});
    };
    tec("tecmp-can-0", TMT_DATA, TDT_CAN, tecmpCan(0x123, 0, {}, {}));
    tec("tecmp-can-8-crc", TMT_DATA, TDT_CAN, tecmpCan(0x80000123, 8, r.bytes(8), r.bytes(3)));
    tec("tecmp-can-8-nocrc", TMT_DATA, TDT_CAN, tecmpCan(0x123, 8, r.bytes(8), {}));
    tec("tecmp-canfd-64", TMT_DATA, TDT_CANFD, tecmpCan(0x1FFFFFFF, 64, r.bytes(64), r.bytes(3)));
    tec("tecmp-canfd-12", TMT_DATA, TDT_CANFD, tecmpCan(0x55, 12, r.bytes(12), {}));
    tec("tecmp-lin-0", TMT_DATA, TDT_LIN, tecmpLin(0x3C, 0, {}, {}));
    tec("tecmp-lin-8", TMT_DATA, TDT_LIN, tecmpLin(0xFF, 8, r.bytes(8), r.bytes(1)));
    tec("tecmp-flexray", TMT_DATA, TDT_FLEXRAY, r.bytes(16));
    tec("tecmp-ethernet", TMT_DATA, TDT_ETHERNET, r.bytes(20));
    tec("tecmp-analog", TMT_DATA, TDT_ANALOG, r.bytes(10));
    tec("tecmp-unknown-datatype", TMT_DATA, 0x1234, r.bytes(10));
    tec("tecmp-control", TMT_CONTROL, 0, r.bytes(8));
    tec("tecmp-config-status", TMT_CONFIG_STATUS, 0, r.bytes(8));
    tec("tecmp-replay", TMT_REPLAY, TDT_CAN, tecmpCan(1, 2, r.bytes(2), {}));
    {
        Bytes pl;
        TecmpStatusGeneric g;
        g.serial = 123456;
        g.vendorDataLength = 24;
        g.put(pl);
        TecmpCmVendor cm;
        cm.swMajor = 1;
        cm.swMinor = 2;
        cm.swPatch = 3;
        cm.hwMajor = 4;
        cm.hwMinor = 5;
        cm.put(pl);
        tec("tecmp-cm-status", TMT_CM_STATUS, 0, pl);
    }
    for (size_t entries : {size_t(0), size_t(1), size_t(9)})
    {
        Bytes pl;
        TecmpStatusGeneric g;
        g.put(pl);
        for (size_t i = 0; i < entries; ++i)
        {
            TecmpBusEntry e;
            e.interfaceId = static_cast<uint32_t>(i + 1);
            e.messagesTotal = static_cast<uint32_t>(r.next());
            e.errorsTotal = static_cast<uint32_t>(r.next());
            e.put(pl);
        }
        tec(entries == 0 ? "tecmp-bus-status-0" : (entries == 1 ? "tecmp-bus-status-1" : "tecmp-bus-status-9"), TMT_BUS_STATUS, 0, pl);
    }
    return v;
}

}  // namespace vf
