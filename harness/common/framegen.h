// Frame-level generators for the decoder-side drivers: messages and frames built from the wire model,
// deliberately inconsistent payloads, bus-error payloads, validity expectations, canonical frames, mutations.
// No library code.
#pragma once
#include <algorithm>
#include <string>
#include <vector>

#include "gen.h"
#include "prng.h"
#include "wire.h"

namespace vf {

using wire::Bytes;

struct GMsg
{
    uint64_t ts = 0;
    uint32_t idWord = 0;
    uint8_t flags = 0;
    uint8_t ptype = 0x10;
    Bytes payload;
    long lenDelta = 0;  // declared length = payload.size() + lenDelta (for deliberately wrong headers)
    uint16_t declared() const
    {
        long d = static_cast<long>(payload.size()) + lenDelta;
        if (d < 0)
            d = 0;
        if (d > 65535)
            d = 65535;
        return static_cast<uint16_t>(d);
    }
};

inline Bytes buildFrame(uint8_t ver, uint16_t dev, uint8_t mt, uint8_t stream, uint16_t seq, const std::vector<GMsg>& msgs, const Bytes& trailing = Bytes())
{
    Bytes f = wire::frameHeader(ver, dev, mt, stream, seq);
    // the reserved byte of the frame header is not always zero (one frame in four, changing from frame to frame, so
    // that consecutive segments of a message differ in it): a receiver has to ignore it
    if ((seq * 2654435761u >> 13) % 4 == 0)
        f[1] = static_cast<uint8_t>(1 + (seq * 40503u >> 3) % 255);
    for (auto& m : msgs)
        wire::appendMessage(f, m.ts, m.idWord, m.flags, m.ptype, m.declared(), m.payload.data(), m.payload.size());
    wire::putBytes(f, trailing);
    return f;
}

// small endpoint alphabet on purpose: same device / other stream and hash neighbours occur constantly
inline uint16_t pickDevice(Rng& r)
{
    static const uint16_t d[] = {0, 1, 0x0100, 0xFFFF};
    return d[r.below(4)];
}
inline uint8_t pickStream(Rng& r)
{
    static const uint8_t s[] = {0, 1, 255};
    return s[r.below(3)];
}

// Two distinct endpoints that a careless combination of (device id, stream id) into ONE key confuses although no bit
// packing is involved: the decimal digits of both ids written one after the other coincide, e.g. (1,23) / (12,3),
// (25,50) / (255,0); their sums, their digit strings and nothing else are equal.
inline std::pair<std::pair<uint16_t, uint8_t>, std::pair<uint16_t, uint8_t>> decimalAliasPair(Rng& r)
{
    unsigned a = static_cast<unsigned>(r.range(1, 6000)), d = static_cast<unsigned>(r.range(1, 9)), rest = static_cast<unsigned>(r.range(0, 25));
    unsigned s1 = static_cast<unsigned>(std::stoul(std::to_string(d) + std::to_string(rest)));
    if (s1 > 255)
    {
        rest %= 10;
        s1 = d * 10 + rest;
    }
    return {{static_cast<uint16_t>(a), static_cast<uint8_t>(s1)}, {static_cast<uint16_t>(a * 10 + d), static_cast<uint8_t>(rest)}};
}

// ---------------------------------------------------------------------------------------------
// Validity expectation for a message (message type, payload type byte, payload bytes), from the wire model.

enum Expect
{
    EXP_VALID,       // consistent, no bus error: must come back valid with identical bytes
    EXP_INVALID,     // inconsistent with its length, or unambiguous bus-error flag: must come back invalid
    EXP_UNSPECIFIED  // the statement does not fix the verdict (see DESIGN.md section 6, C04)
};

inline Expect expectValidity(uint8_t mt, uint8_t pt, const uint8_t* p, size_t n)
{
    using namespace wire;
    if (mt == 0)
        return EXP_UNSPECIFIED;
    if (mt == MT_DATA)
    {
        switch (pt)
        {
            case PT_CAN:
            case PT_CANFD:
                if (!canConsistent(p, n))
                    return EXP_INVALID;
                if (canHasBusError(p))
                    return EXP_INVALID;
                if (get16(p + 12) != 0)
                    return EXP_UNSPECIFIED;  // error position without an error flag
                return EXP_VALID;
            case PT_LIN:
                return linConsistent(p, n) ? EXP_VALID : EXP_INVALID;
            case PT_ANALOG:
                if (n < kAnalogHeader)
                    return EXP_INVALID;
                return (get16(p) & 3) <= 1 ? EXP_VALID : EXP_UNSPECIFIED;  // reserved sample datatype
            case PT_ETHERNET:
                if (!ethConsistent(p, n))
                    return EXP_INVALID;
                if (get16(p) & kEthErrorFlagsSure)
                    return EXP_INVALID;
                if (get16(p) & kEthAmbiguousFlags)
                    return EXP_UNSPECIFIED;
                return EXP_VALID;
            default:
                return EXP_VALID;
        }
    }
    if (mt == MT_STATUS)
    {
        if (pt == PT_CM_STATUS)
            return cmConsistent(p, n) ? EXP_VALID : EXP_INVALID;
        if (pt == PT_IF_STATUS)
        {
            if (ifConsistent(p, n))
                return EXP_VALID;
            // inconsistent lengths -> invalid; only the interface status value out of range -> unspecified
            if (n >= kIfHeader + 4 && p[29] > 2)
            {
                Bytes c(p, p + n);
                c[29] = 0;
                if (ifConsistent(c.data(), c.size()))
                    return EXP_UNSPECIFIED;
            }
            return EXP_INVALID;
        }
    }
    return EXP_VALID;
}

// ---------------------------------------------------------------------------------------------
// Deliberately inconsistent / bus-error payloads of typed kinds

inline Bytes genInconsistentPayload(Kind k, Rng& r)
{
    using namespace wire;
    switch (k)
    {
        case K_CAN:
        case K_CANFD:
        case K_LIN:
        case K_ETH:
        case K_ANALOG:
        {
            size_t hdr = kindMinLen(k);
            if (r.chance(1, 3) || k == K_ANALOG)
                return r.bytes(r.below(hdr));  // shorter than its own header (zero length excluded by callers if needed)
            size_t room = r.below(20);
            Bytes b = genPayload(k, hdr + room, r);
            size_t excess = r.chance(1, 2) ? 1 : r.range(1, 200);
            if (k == K_ETH)
                set16(b.data() + 4, static_cast<uint16_t>(std::min<size_t>(room + excess, 65535)));
            else
            {
                size_t v = room + excess;
                if (v > 255)
                    v = 255;
                b[k == K_LIN ? 7 : 15] = static_cast<uint8_t>(v);
            }
            return b;
        }
        case K_CM:
        {
            Bytes b = genPayload(K_CM, kindMinLen(K_CM) + r.below(40), r);
            unsigned w = static_cast<unsigned>(r.below(3));
            if (w == 0)
                b.resize(r.below(b.size()));  // truncated anywhere (may cut inside the fixed header)
            else
            {
                // enlarge one of the five length prefixes beyond the end
                CmViews v;
                cmConsistent(b.data(), b.size(), &v);
                int i = static_cast<int>(r.below(5));
                size_t rest = b.size() - v.off[i];
                set16(b.data() + v.off[i] - 2, static_cast<uint16_t>(std::min<size_t>(rest + (w == 1 ? 1 : r.range(1, 60000)), 65535)));
            }
            return b;
        }
        case K_IF:
        {
            Bytes b = genPayload(K_IF, kindMinLen(K_IF) + r.below(40), r);
            unsigned w = static_cast<unsigned>(r.below(4));
            IfViews v;
            ifConsistent(b.data(), b.size(), &v);
            if (w == 0)
                b.resize(r.below(b.size()));
            else if (w == 1)
                set16(b.data() + kIfHeader, static_cast<uint16_t>(std::min<size_t>(b.size() - kIfHeader + r.range(0, 300), 65535)));  // stream id count too large
            else if (w == 2)
                set16(b.data() + v.vendorOff - 2, static_cast<uint16_t>(std::min<size_t>(v.vendorLen + r.range(1, 60000), 65535)));
            else
                set16(b.data() + kIfHeader, 0xFFFF);
            return b;
        }
        default:
            return r.bytes(4);
    }
}

inline Bytes genBusErrorPayload(Kind k, size_t len, Rng& r)
{
    using namespace wire;
    Bytes b = genPayload(k, len, r);
    if (k == K_CAN || k == K_CANFD)
    {
        uint16_t f = get16(b.data());
        f |= static_cast<uint16_t>(1u << r.below(10));
        if (r.chance(1, 4))
            f |= static_cast<uint16_t>(r.next() & kCanErrorFlags);
        set16(b.data(), f);
    }
    else if (k == K_ETH)
    {
        static const uint16_t bits[] = {0x0001, 0x0008, 0x0010, 0x0020};
        uint16_t f = get16(b.data());
        f |= bits[r.below(4)];
        set16(b.data(), f);
    }
    return b;
}

// positions (offset, width in bytes) of the inner length / discriminating fields of a payload of kind k (only those that lie inside b)
inline std::vector<std::pair<size_t, int>> lengthFieldsOf(Kind k, const Bytes& b)
{
    std::vector<std::pair<size_t, int>> f;
    switch (k)
    {
        case K_CAN:
        case K_CANFD: f.push_back({15, 1}); break;
        case K_LIN: f.push_back({7, 1}); break;
        case K_ETH: f.push_back({4, 2}); break;
        case K_ANALOG: f.push_back({0, 2}); break;  // sample datatype lives in the flags word
        case K_CM:
        {
            wire::CmViews v;
            if (wire::cmConsistent(b.data(), b.size(), &v))
                for (int i = 0; i < 5; ++i)
                    f.push_back({v.off[i] - 2, 2});
            break;
        }
        case K_IF:
        {
            wire::IfViews v;
            if (wire::ifConsistent(b.data(), b.size(), &v))
            {
                f.push_back({wire::kIfHeader, 2});
                f.push_back({v.vendorOff - 2, 2});
            }
            f.push_back({29, 1});
            break;
        }
        default: break;
    }
    std::vector<std::pair<size_t, int>> in;
    for (auto& x : f)
        if (x.first + static_cast<size_t>(x.second) <= b.size())
            in.push_back(x);
    return in;
}

// value lattice for an inner length field that has `rem` bytes after it
inline std::vector<uint32_t> lengthLattice(int width, size_t rem, bool exhaustive16)
{
    std::vector<uint32_t> v;
    if (width == 1)
    {
        for (uint32_t x = 0; x < 256; ++x)
            v.push_back(x);
        return v;
    }
    if (exhaustive16)
    {
        for (uint32_t x = 0; x <= 0xFFFF; ++x)
            v.push_back(x);
        return v;
    }
    for (uint32_t x = 0; x <= 300; ++x)
        v.push_back(x);
    for (long d = -3; d <= 3; ++d)
        if (static_cast<long>(rem) + d >= 0 && static_cast<long>(rem) + d <= 0xFFFF)
            v.push_back(static_cast<uint32_t>(static_cast<long>(rem) + d));
    for (int bit = 9; bit < 16; ++bit)
        for (long d = -1; d <= 1; ++d)
            v.push_back(static_cast<uint32_t>((1L << bit) + d));
    for (uint32_t x = 0xFFF0; x <= 0xFFFF; ++x)
        v.push_back(x);
    for (uint32_t x = 301; x < 0xFFF0; x += 251)
        v.push_back(x);
    return v;
}

inline GMsg genMsg(Rng& r, Kind k, size_t len, uint8_t& msgTypeOut)
{
    GMsg m;
    msgTypeOut = kindMsgType(k, r);
    m.ptype = kindPayloadType(k, r);
    m.payload = genPayload(k, len, r);
    m.ts = r.chance(1, 8) ? r.pick<uint64_t>({0, 1, 0xFFFFFFFFFFFFFFFFULL}) : r.next();
    m.idWord = r.chance(1, 8) ? r.pick<uint32_t>({0, 1, 0xFFFFFFFFu, 0xFFFF0000u, 0x0000FFFFu}) : static_cast<uint32_t>(r.next());
    m.flags = static_cast<uint8_t>(r.next()) & static_cast<uint8_t>(~(wire::CF_ERROR | wire::CF_SEG));
    return m;
}

// kinds whose message type is `mt` (so that several messages can share a frame)
inline Kind genKindForType(Rng& r, uint8_t mt)
{
    if (mt == wire::MT_DATA)
    {
        static const Kind k[] = {K_CAN, K_CANFD, K_LIN, K_ANALOG, K_ETH, K_GEN_DATA};
        return k[r.below(6)];
    }
    if (mt == wire::MT_STATUS)
    {
        static const Kind k[] = {K_CM, K_IF, K_GEN_STATUS};
        return k[r.below(3)];
    }
    if (mt == wire::MT_CONTROL)
        return K_CONTROL;
    if (mt == wire::MT_VENDOR)
        return K_VENDOR;
    return K_OTHER_MT;
}

// ---------------------------------------------------------------------------------------------
// TECMP frames (well-formed), used by C02/C17/C18 as foreign traffic and by C15 as the subject

inline Bytes genTecmpFrame(Rng& r)
{
    using namespace wire;
    Tecmp t;
    t.device = r.byte();
    t.counter = static_cast<uint16_t>(r.next());
    t.interfaceId = static_cast<uint32_t>(r.next());
    t.timestamp = r.next();
    Bytes pl;
    switch (r.below(5))
    {
        case 0:
        {
            t.msgType = TMT_DATA;
            t.dataType = TDT_CAN;
            size_t n = r.below(9);
            pl = tecmpCan(static_cast<uint32_t>(r.next()), static_cast<uint8_t>(n), r.bytes(n), r.bytes(r.chance(1, 2) ? 3 : 0));
            break;
        }
        case 1:
        {
            t.msgType = TMT_DATA;
            t.dataType = TDT_CANFD;
            size_t n = r.below(65);
            pl = tecmpCan(static_cast<uint32_t>(r.next()), static_cast<uint8_t>(n), r.bytes(n), r.bytes(r.chance(1, 2) ? 3 : 0));
            break;
        }
        case 2:
        {
            t.msgType = TMT_DATA;
            t.dataType = TDT_LIN;
            size_t n = r.below(9);
            pl = tecmpLin(r.byte(), static_cast<uint8_t>(n), r.bytes(n), r.bytes(r.chance(1, 2) ? 1 : 0));
            break;
        }
        case 3:
        {
            t.msgType = TMT_CM_STATUS;
            t.dataType = 0;
            TecmpStatusGeneric g;
            g.serial = static_cast<uint32_t>(r.next());
            g.vendorDataLength = 24;
            TecmpCmVendor v;
            v.swMajor = r.byte();
            v.hwMajor = r.byte();
            g.put(pl);
            v.put(pl);
            break;
        }
        default:
        {
            t.msgType = TMT_BUS_STATUS;
            t.dataType = 0;
            TecmpStatusGeneric g;
            g.put(pl);
            size_t n = r.below(5);
            for (size_t i = 0; i < n; ++i)
            {
                TecmpBusEntry e;
                e.interfaceId = static_cast<uint32_t>(r.next());
                e.messagesTotal = static_cast<uint32_t>(r.next());
                e.errorsTotal = static_cast<uint32_t>(r.next());
                e.put(pl);
            }
            break;
        }
    }
    if (pl.empty())
        pl.push_back(0);
    t.payloadLength = static_cast<uint16_t>(pl.size());
    return t.frame(pl);
}

// ---------------------------------------------------------------------------------------------
// Structured mutation of a frame (C02, C18): truncate, pad, corrupt one header field, flip bytes

inline const std::vector<uint16_t>& hostileValues()
{
    static const std::vector<uint16_t> v = {0, 1, 2, 0x7F, 0x80, 0xFF, 0x100, 0x7FFF, 0x8000, 0xFFFE, 0xFFFF};
    return v;
}

// offsets of message headers inside a CMP frame, following declared lengths as far as they stay inside
inline std::vector<size_t> messageOffsets(const Bytes& f)
{
    std::vector<size_t> o;
    size_t off = wire::kCmpHeader;
    while (off + wire::kMsgHeader <= f.size())
    {
        o.push_back(off);
        size_t len = wire::get16(f.data() + off + 14);
        if (off + wire::kMsgHeader + len > f.size() || o.size() > 64)
            break;
        off += wire::kMsgHeader + len;
    }
    return o;
}

inline std::string mutateFrame(Bytes& f, Rng& r)
{
    if (f.empty())
        return "none";
    unsigned w = static_cast<unsigned>(r.below(100));
    if (w < 18)
    {
        f.resize(r.below(f.size() + 1));
        return "truncate";
    }
    if (w < 26)
    {
        size_t n = r.range(1, 40);
        f.insert(f.end(), n, 0);
        return "zero-pad";
    }
    if (w < 32)
    {
        Bytes t = r.bytes(r.range(1, 40));
        f.insert(f.end(), t.begin(), t.end());
        return "garbage-tail";
    }
    auto offs = (f.size() >= 8 && f[0] != 0) ? messageOffsets(f) : std::vector<size_t>();
    if (w < 60 && !offs.empty())
    {
        size_t o = offs[r.below(offs.size())];
        switch (r.below(4))
        {
            case 0:
                wire::set16(f.data() + o + 14, r.pickv(hostileValues()));
                return "msg-length";
            case 1:
                f[o + 13] = static_cast<uint8_t>(r.pickv(hostileValues()));
                return "msg-payload-type";
            case 2:
                f[o + 12] = r.byte();
                return "msg-flags";
            default:
                // a byte inside the payload's own header (inner length / flags fields live there)
                if (o + 16 < f.size())
                {
                    size_t span = std::min<size_t>(f.size() - (o + 16), 40);
                    f[o + 16 + r.below(span)] = static_cast<uint8_t>(r.pickv(hostileValues()));
                }
                return "payload-header-byte";
        }
    }
    if (w < 72 && f.size() >= 8)
    {
        size_t i = r.below(8);
        f[i] = static_cast<uint8_t>(r.pickv(hostileValues()));
        return i == 0 ? "frame-version" : (i == 4 ? "frame-message-type" : "frame-header-byte");
    }
    if (w < 80 && f.size() >= 28 && f[0] == 0)
    {
        // TECMP header fields: message type, data type, payload length
        switch (r.below(3))
        {
            case 0: f[5] = static_cast<uint8_t>(r.pickv(hostileValues())); return "tecmp-message-type";
            case 1: wire::set16(f.data() + 6, r.pickv(hostileValues())); return "tecmp-data-type";
            default: wire::set16(f.data() + 24, r.pickv(hostileValues())); return "tecmp-payload-length";
        }
    }
    size_t n = r.range(1, 4);
    for (size_t i = 0; i < n; ++i)
        f[r.below(f.size())] = r.byte();
    return "random-bytes";
}

}  // namespace vf
