// Table-driven description of every settable field of every header / payload class, tied to the layout
// table of the protocol (DESIGN.md section 6, C12): byte offset, width of the containing big-endian word,
// bit mask and shift inside that word. One oracle serves C11 and C12:
//   (i)  for any raw image R of an object, every getter returns extract(R)            [C12 bytes -> read]
//   (ii) after set_f(v) the raw image equals R with exactly f's bits replaced by v     [C12 write -> bytes, C11 nothing else]
//   (iii) get_f() == v and every other getter equals extract(new image)                [C11 read back / no side effects]
// Offsets and masks below are written from the protocol layout, not from the library headers.
#pragma once
#include <functional>
#include <memory>
#include <string>
#include <vector>

#include <asam_cmp/analog_payload.h>
#include <asam_cmp/can_fd_payload.h>
#include <asam_cmp/can_payload.h>
#include <asam_cmp/capture_module_payload.h>
#include <asam_cmp/cmp_header.h>
#include <asam_cmp/ethernet_payload.h>
#include <asam_cmp/interface_payload.h>
#include <asam_cmp/lin_payload.h>
#include <asam_cmp/message_header.h>
#include <asam_cmp/packet.h>
#include <asam_cmp/tecmp_can_payload.h>
#include <asam_cmp/tecmp_capture_module_payload.h>
#include <asam_cmp/tecmp_header.h>
#include <asam_cmp/tecmp_interface_payload.h>
#include <asam_cmp/tecmp_lin_payload.h>

#include "wire.h"

namespace vf {
namespace fld {

using wire::Bytes;

struct Subject
{
    virtual ~Subject() = default;
    virtual Bytes raw() const = 0;
};

template <typename T>
struct Subj : Subject
{
    T obj;
    std::function<Bytes(const T&)> rawFn;
    template <typename... A>
    explicit Subj(std::function<Bytes(const T&)> f, A&&... a)
        : obj(std::forward<A>(a)...)
        , rawFn(std::move(f))
    {
    }
    Bytes raw() const override
    {
        return rawFn(obj);
    }
};

struct FieldDef
{
    std::string name;
    size_t off;
    size_t width;   // bytes of the containing big-endian word (1,2,4,8)
    uint64_t mask;  // bits of the field inside that word
    int shift;
    std::function<uint64_t(const Subject&)> get;
    std::function<void(Subject&, uint64_t)> set;
    std::vector<uint64_t> domain;  // explicit in-range values; empty: every value 0..(mask >> shift)
    bool isFloat = false;
    uint64_t maxValue() const
    {
        return mask >> shift;
    }
    int bits() const
    {
        return __builtin_popcountll(mask);
    }
};

struct ReservedDef
{
    size_t off, width;
    uint64_t mask;
};

struct ClassDef
{
    std::string name;
    size_t tableSize;  // number of raw bytes the table describes (standard header size)
    bool realBytes;    // raw() is the object's real storage (false: virtual image serialised from getters)
    size_t defaultLength;  // getLength() / sizeof of a default-constructed object
    std::function<std::unique_ptr<Subject>()> makeDefault;
    std::function<std::unique_ptr<Subject>(const Bytes&)> makeFromRaw;  // object whose raw image starts with the given bytes
    size_t backgroundSize;  // size of the raw image handed to makeFromRaw
    std::vector<FieldDef> fields;
    std::vector<ReservedDef> reserved;
    // typed ASAM payload classes only: change the object's run-time type tag through one of the three public setters of
    // the Payload base (legal calls; the typed accessors are members of the static class and must not care). Returns a
    // description of the call.
    std::function<std::string(Subject&, uint64_t)> retag;
    // getters that are derived from several fields (formatted strings): returns a description of the first one that does not
    // follow from the raw image, or an empty string
    std::function<std::string(const Subject&, const Bytes&)> derived;
};

inline uint64_t beWord(const Bytes& r, size_t off, size_t width)
{
    uint64_t v = 0;
    for (size_t i = 0; i < width; ++i)
        v = (v << 8) | r[off + i];
    return v;
}
inline void setBeWord(Bytes& r, size_t off, size_t width, uint64_t v)
{
    for (size_t i = 0; i < width; ++i)
        r[off + i] = static_cast<uint8_t>(v >> (8 * (width - 1 - i)));
}
inline uint64_t extract(const Bytes& r, const FieldDef& f)
{
    return (beWord(r, f.off, f.width) & f.mask) >> f.shift;
}
inline void deposit(Bytes& r, const FieldDef& f, uint64_t v)
{
    uint64_t w = beWord(r, f.off, f.width);
    w = (w & ~f.mask) | ((v << f.shift) & f.mask);
    setBeWord(r, f.off, f.width, w);
}

// ---- builders -----------------------------------------------------------------------------------

template <typename T>
struct Tab
{
    ClassDef def;
    using Get = std::function<uint64_t(const T&)>;
    using Set = std::function<void(T&, uint64_t)>;
    void add(const char* name, size_t off, size_t width, uint64_t mask, int shift, Get g, Set s, std::vector<uint64_t> domain = {}, bool isFloat = false)
    {
        FieldDef f;
        f.name = name;
        f.off = off;
        f.width = width;
        f.mask = mask;
        f.shift = shift;
        f.get = [g](const Subject& x) { return g(static_cast<const Subj<T>&>(x).obj); };
        f.set = [s](Subject& x, uint64_t v) { s(static_cast<Subj<T>&>(x).obj, v); };
        f.domain = std::move(domain);
        f.isFloat = isFloat;
        def.fields.push_back(std::move(f));
    }
    // whole big-endian word
    void word(const char* name, size_t off, size_t width, Get g, Set s)
    {
        add(name, off, width, width == 8 ? ~0ULL : ((1ULL << (8 * width)) - 1), 0, std::move(g), std::move(s));
    }
    void reserved(size_t off, size_t width, uint64_t mask)
    {
        def.reserved.push_back({off, width, mask});
    }
};

inline uint64_t fbits(float f)
{
    return wire::f32bits(f);
}
inline float bitsf(uint64_t v)
{
    return wire::bitsf32(static_cast<uint32_t>(v));
}

template <typename P>
Bytes payloadRaw(const P& p)
{
    const uint8_t* r = p.getRawPayload();
    return Bytes(r, r + p.getLength());
}

template <typename H>
Bytes podRaw(const H& h)
{
    Bytes b(sizeof(H));
    memcpy(b.data(), &h, sizeof(H));
    return b;
}

template <typename H>
ClassDef finishPod(Tab<H>& t, const char* name, size_t stdSize)
{
    t.def.name = name;
    t.def.tableSize = stdSize;
    t.def.realBytes = true;
    t.def.defaultLength = sizeof(H);
    t.def.backgroundSize = sizeof(H);
    t.def.makeDefault = [] { return std::unique_ptr<Subject>(new Subj<H>(podRaw<H>)); };
    t.def.makeFromRaw = [](const Bytes& b) {
        auto s = new Subj<H>(podRaw<H>);
        memcpy(static_cast<void*>(&s->obj), b.data(), sizeof(H) < b.size() ? sizeof(H) : b.size());
        return std::unique_ptr<Subject>(s);
    };
    return t.def;
}

template <typename P>
ClassDef finishPayload(Tab<P>& t, const char* name, size_t stdSize, size_t extra)
{
    t.def.name = name;
    t.def.tableSize = stdSize;
    t.def.realBytes = true;
    t.def.defaultLength = P().getLength();
    t.def.backgroundSize = stdSize + extra;
    t.def.makeDefault = [] { return std::unique_ptr<Subject>(new Subj<P>(payloadRaw<P>)); };
    t.def.makeFromRaw = [](const Bytes& b) { return std::unique_ptr<Subject>(new Subj<P>(payloadRaw<P>, b.data(), b.size())); };
    t.def.retag = [](Subject& x, uint64_t rnd) -> std::string {
        P& o = static_cast<Subj<P>&>(x).obj;
        using MT = ASAM::CMP::CmpHeader::MessageType;
        static const uint8_t mts[] = {1, 2, 3, 0xFF, 0, 4};
        const uint8_t mt = mts[(rnd >> 8) % 6];
        const uint8_t raw = (rnd >> 16) % 3 ? static_cast<uint8_t>(1 + (rnd >> 24) % 8) : static_cast<uint8_t>(rnd >> 32);
        switch (rnd % 3)
        {
            case 0: o.setRawPayloadType(raw); return "setRawPayloadType(" + std::to_string(raw) + ")";
            case 1: o.setMessageType(static_cast<MT>(mt)); return "setMessageType(" + std::to_string(mt) + ")";
            default: o.setType(ASAM::CMP::PayloadType(static_cast<MT>(mt), raw)); return "setType(" + std::to_string(mt) + "," + std::to_string(raw) + ")";
        }
    };
    return t.def;
}

#define VF_G(T, expr) [](const T& o) -> uint64_t { return static_cast<uint64_t>(expr); }
#define VF_S(T, stmt) [](T& o, uint64_t v) { (void) v; stmt; }

template <typename P, typename F>
void addFlag(Tab<P>& t, const char* name, size_t off, size_t width, uint64_t bit, F flag)
{
    t.add(name, off, width, bit, __builtin_ctzll(bit), [flag](const P& o) -> uint64_t { return o.getFlag(flag) ? 1 : 0; }, [flag](P& o, uint64_t v) { o.setFlag(flag, v != 0); });
}

inline std::vector<ClassDef> buildClasses()
{
    using namespace ASAM::CMP;
    std::vector<ClassDef> all;

    {  // CMP frame header (8 bytes)
        using T = CmpHeader;
        Tab<T> t;
        t.word("version", 0, 1, VF_G(T, o.getVersion()), VF_S(T, o.setVersion(static_cast<uint8_t>(v))));
        t.word("deviceId", 2, 2, VF_G(T, o.getDeviceId()), VF_S(T, o.setDeviceId(static_cast<uint16_t>(v))));
        t.word("messageType", 4, 1, VF_G(T, o.getMessageType()), VF_S(T, o.setMessageType(static_cast<CmpHeader::MessageType>(v))));
        t.word("streamId", 5, 1, VF_G(T, o.getStreamId()), VF_S(T, o.setStreamId(static_cast<uint8_t>(v))));
        t.word("sequenceCounter", 6, 2, VF_G(T, o.getSequenceCounter()), VF_S(T, o.setSequenceCounter(static_cast<uint16_t>(v))));
        t.reserved(1, 1, 0xFF);
        all.push_back(finishPod(t, "CmpHeader", 8));
    }
    {  // message header (16 bytes)
        using T = MessageHeader;
        using CF = MessageHeader::CommonFlags;
        Tab<T> t;
        t.word("timestamp", 0, 8, VF_G(T, o.getTimestamp()), VF_S(T, o.setTimestamp(v)));
        t.word("interfaceId", 8, 4, VF_G(T, o.getInterfaceId()), VF_S(T, o.setInterfaceId(static_cast<uint32_t>(v))));
        t.word("vendorId", 10, 2, VF_G(T, o.getVendorId()), VF_S(T, o.setVendorId(static_cast<uint16_t>(v))));
        t.word("commonFlags", 12, 1, VF_G(T, o.getCommonFlags()), VF_S(T, o.setCommonFlags(static_cast<uint8_t>(v))));
        struct
        {
            const char* n;
            uint64_t bit;
            CF f;
        } flags[] = {{"flag.recalc", 0x01, CF::recalc}, {"flag.insync", 0x02, CF::insync}, {"flag.diOnIf", 0x10, CF::diOnIf}, {"flag.overflow", 0x20, CF::overflow}, {"flag.errorInPayload", 0x40, CF::errorInPayload}};
        for (auto& f : flags)
        {
            CF cf = f.f;
            t.add(f.n, 12, 1, f.bit, __builtin_ctzll(f.bit), [cf](const T& o) -> uint64_t { return o.getCommonFlag(cf) ? 1 : 0; }, [cf](T& o, uint64_t v) { o.setCommonFlag(cf, v != 0); });
        }
        t.add("segmentType", 12, 1, 0x0C, 0, VF_G(T, o.getSegmentType()), VF_S(T, o.setSegmentType(static_cast<MessageHeader::SegmentType>(v))), {0x00, 0x04, 0x08, 0x0C});
        t.word("payloadType", 13, 1, VF_G(T, o.getPayloadType()), VF_S(T, o.setPayloadType(static_cast<uint8_t>(v))));
        t.word("payloadLength", 14, 2, VF_G(T, o.getPayloadLength()), VF_S(T, o.setPayloadLength(static_cast<uint16_t>(v))));
        all.push_back(finishPod(t, "MessageHeader", 16));
    }
    {  // Packet: no wire image of its own; virtual image serialised from its getters
        using T = Packet;
        using CF = MessageHeader::CommonFlags;
        Tab<T> t;
        t.word("version", 0, 1, VF_G(T, o.getVersion()), VF_S(T, o.setVersion(static_cast<uint8_t>(v))));
        t.word("deviceId", 1, 2, VF_G(T, o.getDeviceId()), VF_S(T, o.setDeviceId(static_cast<uint16_t>(v))));
        t.word("streamId", 3, 1, VF_G(T, o.getStreamId()), VF_S(T, o.setStreamId(static_cast<uint8_t>(v))));
        t.word("sequenceCounter", 4, 2, VF_G(T, o.getSequenceCounter()), VF_S(T, o.setSequenceCounter(static_cast<uint16_t>(v))));
        t.word("timestamp", 6, 8, VF_G(T, o.getTimestamp()), VF_S(T, o.setTimestamp(v)));
        t.word("interfaceId", 14, 4, VF_G(T, o.getInterfaceId()), VF_S(T, o.setInterfaceId(static_cast<uint32_t>(v))));
        t.word("vendorId", 18, 2, VF_G(T, o.getVendorId()), VF_S(T, o.setVendorId(static_cast<uint16_t>(v))));
        t.word("commonFlags", 20, 1, VF_G(T, o.getCommonFlags()), VF_S(T, o.setCommonFlags(static_cast<uint8_t>(v))));
        struct
        {
            const char* n;
            uint64_t bit;
            CF f;
        } flags[] = {{"flag.recalc", 0x01, CF::recalc}, {"flag.insync", 0x02, CF::insync}, {"flag.diOnIf", 0x10, CF::diOnIf}, {"flag.overflow", 0x20, CF::overflow}, {"flag.errorInPayload", 0x40, CF::errorInPayload}};
        for (auto& f : flags)
        {
            CF cf = f.f;
            t.add(f.n, 20, 1, f.bit, __builtin_ctzll(f.bit), [cf](const T& o) -> uint64_t { return o.getCommonFlag(cf) ? 1 : 0; }, [cf](T& o, uint64_t v) { o.setCommonFlag(cf, v != 0); });
        }
        t.add("segmentType", 21, 1, 0x0C, 0, VF_G(T, o.getSegmentType()), VF_S(T, o.setSegmentType(static_cast<MessageHeader::SegmentType>(v))), {0x00, 0x04, 0x08, 0x0C});
        // the two fields a packet takes from its payload: written in place through the reference from getPayload(), read
        // back through the packet's own getters
        t.add("messageType.writtenThroughGetPayload", 22, 4, 0x0000FF00, 8, VF_G(T, o.getMessageType()), VF_S(T, o.getPayload().setMessageType(static_cast<CmpHeader::MessageType>(v))));
        t.add("payloadType.writtenThroughGetPayload", 22, 4, 0x000000FF, 0, VF_G(T, o.getPayloadType()), VF_S(T, o.getPayload().setRawPayloadType(static_cast<uint8_t>(v))));
        auto raw = [](const T& o) {
            Bytes b;
            wire::put8(b, o.getVersion());
            wire::put16(b, o.getDeviceId());
            wire::put8(b, o.getStreamId());
            wire::put16(b, o.getSequenceCounter());
            wire::put64(b, o.getTimestamp());
            wire::put32(b, o.getInterfaceId());
            wire::put16(b, o.getVendorId());
            wire::put8(b, o.getCommonFlags());
            wire::put8(b, static_cast<uint8_t>(o.getSegmentType()));
            // the payload (type, bytes) must not be touched by header setters either
            wire::put32(b, o.getPayload().getType().getType());
            wire::putBytes(b, o.getPayload().getRawPayload(), o.getPayload().getLength());
            return b;
        };
        t.def.name = "Packet";
        t.def.tableSize = 22;
        t.def.realBytes = false;
        t.def.defaultLength = 0;
        t.def.backgroundSize = 22;
        auto fromRaw = [raw](const Bytes& b) {
            auto s = new Subj<T>(raw);
            T& p = s->obj;
            static const uint8_t pl[] = {1, 2, 3, 4, 5, 6, 7};
            p.setPayload(Payload(PayloadType(CmpHeader::MessageType::data, 0x20), pl, sizeof pl));
            p.setVersion(b[0]);
            p.setDeviceId(wire::get16(b.data() + 1));
            p.setStreamId(b[3]);
            p.setSequenceCounter(wire::get16(b.data() + 4));
            p.setTimestamp(wire::get64(b.data() + 6));
            p.setInterfaceId(wire::get32(b.data() + 14));
            p.setVendorId(wire::get16(b.data() + 18));
            p.setCommonFlags(b[20]);
            p.setSegmentType(static_cast<MessageHeader::SegmentType>(b[21] & 0x0C));
            return std::unique_ptr<Subject>(s);
        };
        t.def.makeFromRaw = fromRaw;
        t.def.makeDefault = [fromRaw] {
            Bytes z(22, 0);
            z[0] = 1;
            return fromRaw(z);
        };
        all.push_back(t.def);
    }
    {  // PayloadType (virtual image: the 32-bit type word) and the type setters of Payload
        using T = Payload;
        Tab<T> t;
        t.add("type", 0, 4, 0xFFFFFFFF, 0, VF_G(T, o.getType().getType()), VF_S(T, o.setType(PayloadType(static_cast<uint32_t>(v)))));
        t.add("messageType", 0, 4, 0x0000FF00, 8, VF_G(T, o.getMessageType()), VF_S(T, o.setMessageType(static_cast<CmpHeader::MessageType>(v))));
        t.add("rawPayloadType", 0, 4, 0x000000FF, 0, VF_G(T, o.getRawPayloadType()), VF_S(T, o.setRawPayloadType(static_cast<uint8_t>(v))));
        auto raw = [](const T& o) {
            Bytes b;
            wire::put32(b, o.getType().getType());
            wire::putBytes(b, o.getRawPayload(), o.getLength());
            return b;
        };
        t.def.name = "Payload.type";
        t.def.tableSize = 4;
        t.def.realBytes = false;
        t.def.defaultLength = 0;
        t.def.backgroundSize = 4 + 6;
        t.def.makeFromRaw = [raw](const Bytes& b) { return std::unique_ptr<Subject>(new Subj<T>(raw, PayloadType(wire::get32(b.data())), b.data() + 4, b.size() - 4)); };
        t.def.makeDefault = [raw] {
            static const uint8_t d[6] = {9, 8, 7, 6, 5, 4};
            return std::unique_ptr<Subject>(new Subj<T>(raw, PayloadType(PayloadType::ethernet), d, sizeof d));
        };
        all.push_back(t.def);
        // PayloadType as a value class
        using U = PayloadType;
        Tab<U> u;
        u.add("type", 0, 4, 0xFFFFFFFF, 0, VF_G(U, o.getType()), VF_S(U, o.setType(static_cast<uint32_t>(v))));
        u.add("messageType", 0, 4, 0x0000FF00, 8, VF_G(U, o.getMessageType()), VF_S(U, o.setMessageType(static_cast<CmpHeader::MessageType>(v))));
        u.add("rawPayloadType", 0, 4, 0x000000FF, 0, VF_G(U, o.getRawPayloadType()), VF_S(U, o.setRawPayloadType(static_cast<uint8_t>(v))));
        auto uraw = [](const U& o) {
            Bytes b;
            wire::put32(b, o.getType());
            return b;
        };
        u.def.name = "PayloadType";
        u.def.tableSize = 4;
        u.def.realBytes = false;
        u.def.defaultLength = 0;
        u.def.backgroundSize = 4;
        u.def.makeFromRaw = [uraw](const Bytes& b) { return std::unique_ptr<Subject>(new Subj<U>(uraw, wire::get32(b.data()))); };
        u.def.makeDefault = [uraw] { return std::unique_ptr<Subject>(new Subj<U>(uraw, 0u)); };
        all.push_back(u.def);
    }
    {  // the same two for TECMP: type setters of TECMP::Payload and TECMP::PayloadType as a value class
        using T = TECMP::Payload;
        using MT = TECMP::CmpHeader::MessageType;
        Tab<T> t;
        t.add("type", 0, 4, 0xFFFFFFFF, 0, VF_G(T, o.getType().getType()), VF_S(T, o.setType(TECMP::PayloadType(static_cast<uint32_t>(v)))));
        t.add("messageType", 0, 4, 0x0000FF00, 8, VF_G(T, o.getMessageType()), VF_S(T, o.setMessageType(static_cast<MT>(v))));
        t.add("rawPayloadType", 0, 4, 0x000000FF, 0, VF_G(T, o.getRawPayloadType()), VF_S(T, o.setRawPayloadType(static_cast<uint8_t>(v))));
        auto raw = [](const T& o) {
            Bytes b;
            wire::put32(b, o.getType().getType());
            wire::putBytes(b, o.getRawPayload(), o.getLength());
            return b;
        };
        t.def.name = "TECMP::Payload.type";
        t.def.tableSize = 4;
        t.def.realBytes = false;
        t.def.defaultLength = 0;
        t.def.backgroundSize = 4 + 6;
        t.def.makeFromRaw = [raw](const Bytes& b) { return std::unique_ptr<Subject>(new Subj<T>(raw, TECMP::PayloadType(wire::get32(b.data())), b.data() + 4, b.size() - 4)); };
        t.def.makeDefault = [raw] {
            static const uint8_t d[6] = {9, 8, 7, 6, 5, 4};
            return std::unique_ptr<Subject>(new Subj<T>(raw, TECMP::PayloadType(TECMP::PayloadType::can), d, sizeof d));
        };
        all.push_back(t.def);
        using U = TECMP::PayloadType;
        Tab<U> u;
        u.add("type", 0, 4, 0xFFFFFFFF, 0, VF_G(U, o.getType()), VF_S(U, o.setType(static_cast<uint32_t>(v))));
        u.add("messageType", 0, 4, 0x0000FF00, 8, VF_G(U, o.getMessageType()), VF_S(U, o.setMessageType(static_cast<MT>(v))));
        u.add("rawPayloadType", 0, 4, 0x000000FF, 0, VF_G(U, o.getRawPayloadType()), VF_S(U, o.setRawPayloadType(static_cast<uint8_t>(v))));
        auto uraw = [](const U& o) {
            Bytes b;
            wire::put32(b, o.getType());
            return b;
        };
        u.def.name = "TECMP::PayloadType";
        u.def.tableSize = 4;
        u.def.realBytes = false;
        u.def.defaultLength = 0;
        u.def.backgroundSize = 4;
        u.def.makeFromRaw = [uraw](const Bytes& b) { return std::unique_ptr<Subject>(new Subj<U>(uraw, wire::get32(b.data()))); };
        u.def.makeDefault = [uraw] { return std::unique_ptr<Subject>(new Subj<U>(uraw, 0u)); };
        all.push_back(u.def);
    }
    {  // CAN (16-byte payload header)
        using T = CanPayload;
        using F = CanPayloadBase::Flags;
        Tab<T> t;
        t.word("flags", 0, 2, VF_G(T, o.getFlags()), VF_S(T, o.setFlags(static_cast<uint16_t>(v))));
        struct
        {
            const char* n;
            uint64_t bit;
            F f;
        } fl[] = {{"flag.crcErr", 0x0001, F::crcErr}, {"flag.ackErr", 0x0002, F::ackErr}, {"flag.passiveAckErr", 0x0004, F::passiveAckErr}, {"flag.activeAckErr", 0x0008, F::activeAckErr},
                  {"flag.ackDelErr", 0x0010, F::ackDelErr}, {"flag.formErr", 0x0020, F::formErr}, {"flag.stuffErr", 0x0040, F::stuffErr}, {"flag.crcDelErr", 0x0080, F::crcDelErr},
                  {"flag.eofErr", 0x0100, F::eofErr}, {"flag.bitErr", 0x0200, F::bitErr}, {"flag.r0", 0x0400, F::r0}, {"flag.srrDom", 0x0800, F::srrDom}, {"flag.brs", 0x1000, F::brs}, {"flag.esi", 0x2000, F::esi}};
        for (auto& f : fl)
            addFlag(t, f.n, 0, 2, f.bit, f.f);
        t.add("id", 4, 4, 0x1FFFFFFF, 0, VF_G(T, o.getId()), VF_S(T, o.setId(static_cast<uint32_t>(v))));
        t.add("rsvd", 4, 4, 0x20000000, 29, VF_G(T, o.getRsvd()), VF_S(T, o.setRsvd(v != 0)));
        t.add("rtr", 4, 4, 0x40000000, 30, VF_G(T, o.getRtr()), VF_S(T, o.setRtr(v != 0)));
        t.add("ide", 4, 4, 0x80000000, 31, VF_G(T, o.getIde()), VF_S(T, o.setIde(v != 0)));
        t.add("crc", 8, 4, 0x00007FFF, 0, VF_G(T, o.getCrc()), VF_S(T, o.setCrc(static_cast<uint16_t>(v))));
        t.add("crcSupport", 8, 4, 0x80000000, 31, VF_G(T, o.getCrcSupport()), VF_S(T, o.setCrcSupport(v != 0)));
        t.word("errorPosition", 12, 2, VF_G(T, o.getErrorPosition()), VF_S(T, o.setErrorPosition(static_cast<uint16_t>(v))));
        t.reserved(2, 2, 0xFFFF);
        t.reserved(8, 4, 0x7FFF8000);
        all.push_back(finishPayload(t, "CanPayload", 16, 12));
    }
    {  // CAN-FD
        using T = CanFdPayload;
        using F = CanPayloadBase::Flags;
        Tab<T> t;
        t.word("flags", 0, 2, VF_G(T, o.getFlags()), VF_S(T, o.setFlags(static_cast<uint16_t>(v))));
        addFlag(t, "flag.crcErr", 0, 2, 0x0001, F::crcErr);
        addFlag(t, "flag.brs", 0, 2, 0x1000, F::brs);
        addFlag(t, "flag.esi", 0, 2, 0x2000, F::esi);
        t.add("id", 4, 4, 0x1FFFFFFF, 0, VF_G(T, o.getId()), VF_S(T, o.setId(static_cast<uint32_t>(v))));
        t.add("rsvd", 4, 4, 0x20000000, 29, VF_G(T, o.getRsvd()), VF_S(T, o.setRsvd(v != 0)));
        t.add("rrs", 4, 4, 0x40000000, 30, VF_G(T, o.getRrs()), VF_S(T, o.setRrs(v != 0)));
        t.add("ide", 4, 4, 0x80000000, 31, VF_G(T, o.getIde()), VF_S(T, o.setIde(v != 0)));
        t.add("crc", 8, 4, 0x001FFFFF, 0, VF_G(T, o.getCrc()), VF_S(T, o.setCrc(static_cast<uint32_t>(v))));
        t.add("sbc", 8, 4, 0x00E00000, 21, VF_G(T, o.getSbc()), VF_S(T, o.setSbc(static_cast<uint8_t>(v))));
        t.add("sbcParity", 8, 4, 0x01000000, 24, VF_G(T, o.getSbcParity()), VF_S(T, o.setSbcParity(v != 0)));
        t.add("sbcSupport", 8, 4, 0x40000000, 30, VF_G(T, o.getSbcSupport()), VF_S(T, o.setSbcSupport(v != 0)));
        t.add("crcSupport", 8, 4, 0x80000000, 31, VF_G(T, o.getCrcSupport()), VF_S(T, o.setCrcSupport(v != 0)));
        t.word("errorPosition", 12, 2, VF_G(T, o.getErrorPosition()), VF_S(T, o.setErrorPosition(static_cast<uint16_t>(v))));
        t.reserved(2, 2, 0xFFFF);
        t.reserved(8, 4, 0x3E000000);
        all.push_back(finishPayload(t, "CanFdPayload", 16, 12));
    }
    {  // CAN header class itself (setters the payload classes do not forward: dlc, data length)
        using T = CanPayloadBase::Header;
        Tab<T> t;
        t.word("flags", 0, 2, VF_G(T, o.getFlags()), VF_S(T, o.setFlags(static_cast<uint16_t>(v))));
        t.add("id", 4, 4, 0x1FFFFFFF, 0, VF_G(T, o.getId()), VF_S(T, o.setId(static_cast<uint32_t>(v))));
        t.add("rtrRrs", 4, 4, 0x40000000, 30, VF_G(T, o.getRtrRrs()), VF_S(T, o.setRtrRrs(v != 0)));
        t.add("crc", 8, 4, 0x00007FFF, 0, VF_G(T, o.getCrc()), VF_S(T, o.setCrc(static_cast<uint16_t>(v))));
        t.add("crcSupport", 8, 4, 0x80000000, 31, VF_G(T, o.getCrcSupport()), VF_S(T, o.setCrcSupport(v != 0)));
        t.add("sbcSupport", 8, 4, 0x40000000, 30, VF_G(T, o.getSbcSupport()), VF_S(T, o.setSbcSupport(v != 0)));
        t.word("dlc", 14, 1, VF_G(T, o.getDlc()), VF_S(T, o.setDlc(static_cast<uint8_t>(v))));
        t.word("dataLength", 15, 1, VF_G(T, o.getDataLength()), VF_S(T, o.setDataLength(static_cast<uint8_t>(v))));
        t.reserved(2, 2, 0xFFFF);
        all.push_back(finishPod(t, "CanPayloadBase::Header", 16));
    }
    {  // LIN (8)
        using T = LinPayload;
        using F = LinPayload::Flags;
        Tab<T> t;
        t.word("flags", 0, 2, VF_G(T, o.getFlags()), VF_S(T, o.setFlags(static_cast<uint16_t>(v))));
        struct
        {
            const char* n;
            uint64_t bit;
            F f;
        } fl[] = {{"flag.checksumErr", 0x0001, F::checksumErr}, {"flag.collisionErr", 0x0002, F::collisionErr}, {"flag.parityErr", 0x0004, F::parityErr}, {"flag.noSlaveRespErr", 0x0008, F::noSlaveRespErr},
                  {"flag.syncErr", 0x0010, F::syncErr}, {"flag.framingErr", 0x0020, F::framingErr}, {"flag.shortDomErr", 0x0040, F::shortDomErr}, {"flag.longDomErr", 0x0080, F::longDomErr}, {"flag.wup", 0x0100, F::wup}};
        for (auto& f : fl)
            addFlag(t, f.n, 0, 2, f.bit, f.f);
        t.add("linId", 4, 1, 0x3F, 0, VF_G(T, o.getLinId()), VF_S(T, o.setLinId(static_cast<uint8_t>(v))));
        t.add("parityBits", 4, 1, 0xC0, 6, VF_G(T, o.getParityBits()), VF_S(T, o.setParityBits(static_cast<uint8_t>(v))));
        t.word("checksum", 6, 1, VF_G(T, o.getChecksum()), VF_S(T, o.setChecksum(static_cast<uint8_t>(v))));
        t.reserved(2, 2, 0xFFFF);
        t.reserved(5, 1, 0xFF);
        all.push_back(finishPayload(t, "LinPayload", 8, 10));
    }
    {
        using T = LinPayload::Header;
        Tab<T> t;
        t.word("flags", 0, 2, VF_G(T, o.getFlags()), VF_S(T, o.setFlags(static_cast<uint16_t>(v))));
        t.add("linId", 4, 1, 0x3F, 0, VF_G(T, o.getLinId()), VF_S(T, o.setLinId(static_cast<uint8_t>(v))));
        t.word("dataLength", 7, 1, VF_G(T, o.getDataLength()), VF_S(T, o.setDataLength(static_cast<uint8_t>(v))));
        all.push_back(finishPod(t, "LinPayload::Header", 8));
    }
    {  // Ethernet (6)
        using T = EthernetPayload;
        using F = EthernetPayload::Flags;
        Tab<T> t;
        t.word("flags", 0, 2, VF_G(T, o.getFlags()), VF_S(T, o.setFlags(static_cast<uint16_t>(v))));
        struct
        {
            const char* n;
            uint64_t bit;
            F f;
        } fl[] = {{"flag.fcsErr", 0x01, F::fcsErr}, {"flag.frameShorterThan64b", 0x02, F::frameShorterThan64b}, {"flag.txPortDown", 0x04, F::txPortDown}, {"flag.collision", 0x08, F::collision},
                  {"flag.frameTooLongErr", 0x10, F::frameTooLongErr}, {"flag.phyErr", 0x20, F::phyErr}, {"flag.frameTruncated", 0x40, F::frameTruncated}, {"flag.fcsSupport", 0x80, F::fcsSupport}};
        for (auto& f : fl)
            addFlag(t, f.n, 0, 2, f.bit, f.f);
        t.reserved(2, 2, 0xFFFF);
        all.push_back(finishPayload(t, "EthernetPayload", 6, 14));
    }
    {
        using T = EthernetPayload::Header;
        Tab<T> t;
        t.word("flags", 0, 2, VF_G(T, o.getFlags()), VF_S(T, o.setFlags(static_cast<uint16_t>(v))));
        t.word("dataLength", 4, 2, VF_G(T, o.getDataLength()), VF_S(T, o.setDataLength(static_cast<uint16_t>(v))));
        all.push_back(finishPod(t, "EthernetPayload::Header", 6));
    }
    {  // analog (16)
        using T = AnalogPayload;
        Tab<T> t;
        t.word("flags", 0, 2, VF_G(T, o.getFlags()), VF_S(T, o.setFlags(static_cast<uint16_t>(v))));
        t.add("sampleDt", 0, 2, 0x0003, 0, VF_G(T, (static_cast<uint16_t>(o.getSampleDt()) >> 8)), VF_S(T, o.setSampleDt(static_cast<AnalogPayload::SampleDt>(static_cast<uint16_t>(v << 8)))), {0, 1});
        t.word("unit", 3, 1, VF_G(T, o.getUnit()), VF_S(T, o.setUnit(static_cast<AnalogPayload::Unit>(v))));
        t.add("sampleInterval", 4, 4, 0xFFFFFFFF, 0, VF_G(T, fbits(o.getSampleInterval())), VF_S(T, o.setSampleInterval(bitsf(v))), {}, true);
        t.add("sampleOffset", 8, 4, 0xFFFFFFFF, 0, VF_G(T, fbits(o.getSampleOffset())), VF_S(T, o.setSampleOffset(bitsf(v))), {}, true);
        t.add("sampleScalar", 12, 4, 0xFFFFFFFF, 0, VF_G(T, fbits(o.getSampleScalar())), VF_S(T, o.setSampleScalar(bitsf(v))), {}, true);
        t.reserved(2, 1, 0xFF);
        all.push_back(finishPayload(t, "AnalogPayload", 16, 12));
    }
    {  // capture module status (26)
        using T = CaptureModulePayload;
        Tab<T> t;
        t.word("uptime", 0, 8, VF_G(T, o.getUptime()), VF_S(T, o.setUptime(v)));
        t.word("gmIdentity", 8, 8, VF_G(T, o.getGmIdentity()), VF_S(T, o.setGmIdentity(v)));
        t.word("gmClockQuality", 16, 4, VF_G(T, o.getGmClockQuality()), VF_S(T, o.setGmClockQuality(static_cast<uint32_t>(v))));
        t.word("currentUtcOffset", 20, 2, VF_G(T, o.getCurrentUtcOffset()), VF_S(T, o.setCurrentUtcOffset(static_cast<uint16_t>(v))));
        t.word("timeSource", 22, 1, VF_G(T, o.getTimeSource()), VF_S(T, o.setTimeSource(static_cast<uint8_t>(v))));
        t.word("domainNumber", 23, 1, VF_G(T, o.getDomainNumber()), VF_S(T, o.setDomainNumber(static_cast<uint8_t>(v))));
        t.word("gptpFlags", 25, 1, VF_G(T, o.getGptpFlags()), VF_S(T, o.setGptpFlags(static_cast<uint8_t>(v))));
        t.reserved(24, 1, 0xFF);
        all.push_back(finishPayload(t, "CaptureModulePayload", 26, 14));
    }
    {  // interface status (36)
        using T = InterfacePayload;
        Tab<T> t;
        t.word("interfaceId", 0, 4, VF_G(T, o.getInterfaceId()), VF_S(T, o.setInterfaceId(static_cast<uint32_t>(v))));
        t.word("msgTotalRx", 4, 4, VF_G(T, o.getMsgTotalRx()), VF_S(T, o.setMsgTotalRx(static_cast<uint32_t>(v))));
        t.word("msgTotalTx", 8, 4, VF_G(T, o.getMsgTotalTx()), VF_S(T, o.setMsgTotalTx(static_cast<uint32_t>(v))));
        t.word("msgDroppedRx", 12, 4, VF_G(T, o.getMsgDroppedRx()), VF_S(T, o.setMsgDroppedRx(static_cast<uint32_t>(v))));
        t.word("msgDroppedTx", 16, 4, VF_G(T, o.getMsgDroppedTx()), VF_S(T, o.setMsgDroppedTx(static_cast<uint32_t>(v))));
        t.word("errorsTotalRx", 20, 4, VF_G(T, o.getErrorsTotalRx()), VF_S(T, o.setErrorsTotalRx(static_cast<uint32_t>(v))));
        t.word("errorsTotalTx", 24, 4, VF_G(T, o.getErrorsTotalTx()), VF_S(T, o.setErrorsTotalTx(static_cast<uint32_t>(v))));
        t.word("interfaceType", 28, 1, VF_G(T, o.getInterfaceType()), VF_S(T, o.setInterfaceType(static_cast<uint8_t>(v))));
        t.add("interfaceStatus", 29, 1, 0xFF, 0, VF_G(T, o.getInterfaceStatus()), VF_S(T, o.setInterfaceStatus(static_cast<InterfacePayload::InterfaceStatus>(v))), {0, 1, 2});
        t.word("featureSupportBitmask", 32, 4, VF_G(T, o.getFeatureSupportBitmask()), VF_S(T, o.setFeatureSupportBitmask(static_cast<uint32_t>(v))));
        t.reserved(30, 2, 0xFFFF);
        all.push_back(finishPayload(t, "InterfacePayload", 36, 12));
    }
    {  // TECMP header (28)
        using T = TECMP::CmpHeader;
        Tab<T> t;
        t.word("deviceId", 1, 1, VF_G(T, o.getDeviceId()), VF_S(T, o.setDeviceId(static_cast<uint8_t>(v))));
        t.word("sequenceCounter", 2, 2, VF_G(T, o.getSequenceCounter()), VF_S(T, o.setSequenceCounter(static_cast<uint16_t>(v))));
        t.word("version", 4, 1, VF_G(T, o.getVersion()), VF_S(T, o.setVersion(static_cast<uint8_t>(v))));
        t.word("messageType", 5, 1, VF_G(T, o.getMessageType()), VF_S(T, o.setMessageType(static_cast<TECMP::CmpHeader::MessageType>(v))));
        t.word("dataType", 6, 2, VF_G(T, o.getDataType()), VF_S(T, o.setDataType(static_cast<TECMP::CmpHeader::DataType>(v))));
        t.word("deviceFlags", 10, 2, VF_G(T, o.getDeviceFlags()), VF_S(T, o.setDeviceFlags(static_cast<uint16_t>(v))));
        t.word("interfaceId", 12, 4, VF_G(T, o.getInterfaceId()), VF_S(T, o.setInterfaceId(static_cast<uint32_t>(v))));
        t.word("timestamp", 16, 8, VF_G(T, o.getTimestamp()), VF_S(T, o.setTimestamp(v)));
        t.word("payloadLength", 24, 2, VF_G(T, o.getPayloadLength()), VF_S(T, o.setPayloadLength(static_cast<uint16_t>(v))));
        t.reserved(8, 2, 0xFFFF);
        all.push_back(finishPod(t, "TECMP::CmpHeader", 28));
    }
    {  // TECMP CAN payload: arbitration id, length
        using T = TECMP::CanPayload;
        Tab<T> t;
        t.word("arbId", 0, 4, VF_G(T, o.getArbId()), VF_S(T, o.setArbId(static_cast<uint32_t>(v))));
        t.word("dlc", 4, 1, VF_G(T, o.getDlc()), VF_S(T, o.setDlc(static_cast<uint8_t>(v))));
        t.def.name = "TECMP::CanPayload";
        t.def.tableSize = 5;
        t.def.realBytes = true;
        t.def.defaultLength = T().getLength();
        t.def.backgroundSize = 5 + 255;  // long enough for any length byte
        t.def.makeDefault = [] { return std::unique_ptr<Subject>(new Subj<T>(payloadRaw<T>)); };
        t.def.makeFromRaw = [](const Bytes& b) { return std::unique_ptr<Subject>(new Subj<T>(payloadRaw<T>, b.data(), b.size())); };
        all.push_back(t.def);
    }
    {
        using T = TECMP::LinPayload;
        Tab<T> t;
        t.word("pid", 0, 1, VF_G(T, o.getPid()), VF_S(T, o.setPid(static_cast<uint8_t>(v))));
        t.word("dataLength", 1, 1, VF_G(T, o.getDataLength()), VF_S(T, o.setDataLength(static_cast<uint8_t>(v))));
        t.def.name = "TECMP::LinPayload";
        t.def.tableSize = 2;
        t.def.realBytes = true;
        t.def.defaultLength = T().getLength();
        t.def.backgroundSize = 2 + 256;
        t.def.makeDefault = [] { return std::unique_ptr<Subject>(new Subj<T>(payloadRaw<T>)); };
        t.def.makeFromRaw = [](const Bytes& b) { return std::unique_ptr<Subject>(new Subj<T>(payloadRaw<T>, b.data(), b.size())); };
        all.push_back(t.def);
    }
    {  // TECMP capture module status: 12 generic bytes + 24 vendor data bytes
        using T = TECMP::CaptureModulePayload;
        Tab<T> t;
        t.word("vendorId", 0, 1, VF_G(T, o.getVendorId()), VF_S(T, o.setVendorId(static_cast<uint8_t>(v))));
        t.word("deviceVersion", 1, 1, VF_G(T, o.getDeviceVersion()), VF_S(T, o.setDeviceVersion(static_cast<uint8_t>(v))));
        t.word("deviceType", 2, 1, VF_G(T, o.getDeviceType()), VF_S(T, o.setDeviceType(static_cast<uint8_t>(v))));
        t.word("vendorDataLength", 4, 2, VF_G(T, o.getVendorDataLength()), VF_S(T, o.setVendorDataLength(static_cast<uint16_t>(v))));
        t.word("deviceId", 6, 2, VF_G(T, o.getDeviceId()), VF_S(T, o.setDeviceId(static_cast<uint16_t>(v))));
        t.word("serialNumber", 8, 4, VF_G(T, o.getSerialNumber()), VF_S(T, o.setSerialNumber(static_cast<uint32_t>(v))));
        t.word("swVersionMajor", 13, 1, VF_G(T, o.getSwVersionMajor()), VF_S(T, o.setSwVersionMajor(static_cast<uint8_t>(v))));
        t.word("swVersionMinor", 14, 1, VF_G(T, o.getSwVersionMinor()), VF_S(T, o.setSwVersionMinor(static_cast<uint8_t>(v))));
        t.word("swVersionPatch", 15, 1, VF_G(T, o.getSwVersionPatch()), VF_S(T, o.setSwVersionPatch(static_cast<uint8_t>(v))));
        t.word("hwVersionMajor", 16, 1, VF_G(T, o.getHwVersionMajor()), VF_S(T, o.setHwVersionMajor(static_cast<uint8_t>(v))));
        t.word("hwVersionMinor", 17, 1, VF_G(T, o.getHwVersionMinor()), VF_S(T, o.setHwVersionMinor(static_cast<uint8_t>(v))));
        t.word("bufferFill", 18, 1, VF_G(T, o.getBufferFill()), VF_S(T, o.setBufferFill(static_cast<uint8_t>(v))));
        t.word("isBufferOverflow", 19, 1, VF_G(T, o.getIsBufferOverflow()), VF_S(T, o.setIsBufferOverflow(static_cast<uint8_t>(v))));
        t.word("bufferSize", 20, 4, VF_G(T, o.getBufferSize()), VF_S(T, o.setBufferSize(static_cast<uint32_t>(v))));
        t.word("lifecycle", 24, 8, VF_G(T, o.getLifecycle()), VF_S(T, o.setLifecycle(v)));
        t.word("voltageWhole", 32, 1, VF_G(T, o.getVoltageWhole()), VF_S(T, o.setVoltageWhole(static_cast<uint8_t>(v))));
        t.word("voltageFraction", 33, 1, VF_G(T, o.getVoltageFraction()), VF_S(T, o.setVoltageFraction(static_cast<uint8_t>(v))));
        t.word("chassisTemp", 34, 1, VF_G(T, o.getChassisTemp()), VF_S(T, o.setChassisTemp(static_cast<uint8_t>(v))));
        t.word("silliconTemp", 35, 1, VF_G(T, o.getSilliconTemp()), VF_S(T, o.setSilliconTemp(static_cast<uint8_t>(v))));
        t.reserved(3, 1, 0xFF);
        t.reserved(12, 1, 0xFF);
        t.def.derived = [](const Subject& x, const Bytes& raw) -> std::string {
            const T& o = static_cast<const Subj<T>&>(x).obj;
            if (raw.size() < 18)
                return "";
            std::string sw = "v" + std::to_string(raw[13]) + "." + std::to_string(raw[14]) + "." + std::to_string(raw[15]);
            std::string hw = "v" + std::to_string(raw[16]) + "." + std::to_string(raw[17]);
            if (o.getSwVersion() != sw)
                return "getSwVersion() returns \"" + o.getSwVersion() + "\", the fields hold " + sw;
            if (o.getHwVersion() != hw)
                return "getHwVersion() returns \"" + o.getHwVersion() + "\", the fields hold " + hw;
            return "";
        };
        t.def.name = "TECMP::CaptureModulePayload";
        t.def.tableSize = 36;
        t.def.realBytes = true;
        t.def.defaultLength = T().getLength();
        t.def.backgroundSize = 36;
        t.def.makeDefault = [] { return std::unique_ptr<Subject>(new Subj<T>(payloadRaw<T>)); };
        t.def.makeFromRaw = [](const Bytes& b) { return std::unique_ptr<Subject>(new Subj<T>(payloadRaw<T>, b.data(), b.size())); };
        all.push_back(t.def);
    }
    {  // TECMP bus status entry view: 12 generic bytes + interface id, messages total, errors total + vendor data
        using T = TECMP::InterfacePayload;
        Tab<T> t;
        t.word("vendorId", 0, 1, VF_G(T, o.getVendorId()), VF_S(T, o.setVendorId(static_cast<uint8_t>(v))));
        t.word("cmVersion", 1, 1, VF_G(T, o.getCmVersion()), VF_S(T, o.setCmVersion(static_cast<uint8_t>(v))));
        t.word("cmType", 2, 1, VF_G(T, o.getCmType()), VF_S(T, o.setCmType(static_cast<uint8_t>(v))));
        t.word("vendorDataLength", 4, 2, VF_G(T, o.getVendorDataLength()), VF_S(T, o.setVendorDataLength(static_cast<uint16_t>(v))));
        t.word("deviceId", 6, 2, VF_G(T, o.getDeviceId()), VF_S(T, o.setDeviceId(static_cast<uint16_t>(v))));
        t.word("serialNumber", 8, 4, VF_G(T, o.getSerialNumber()), VF_S(T, o.setSerialNumber(static_cast<uint32_t>(v))));
        t.word("interfaceId", 12, 4, VF_G(T, o.getInterfaceId()), VF_S(T, o.setInterfaceId(static_cast<uint32_t>(v))));
        t.word("messagesTotal", 16, 4, VF_G(T, o.getMessagesTotal()), VF_S(T, o.setMessagesTotal(static_cast<uint32_t>(v))));
        t.word("errorsTotal", 20, 4, VF_G(T, o.getErrorsTotal()), VF_S(T, o.setErrorsTotal(static_cast<uint32_t>(v))));
        t.word("linkStatus", 24, 1, VF_G(T, o.getVendorDataLinkStatus()), VF_S(T, o.setVendorDataLinkStatus(static_cast<uint8_t>(v))));
        t.word("linkQuality", 25, 1, VF_G(T, o.getVendorDataLinkQuality()), VF_S(T, o.setVendorDataLinkQuality(static_cast<uint8_t>(v))));
        t.word("linkupTime", 26, 2, VF_G(T, o.getVendorDataLinkupTime()), VF_S(T, o.setVendorDataLinkupTime(static_cast<uint16_t>(v))));
        t.reserved(3, 1, 0xFF);
        t.def.name = "TECMP::InterfacePayload";
        t.def.tableSize = 28;
        t.def.realBytes = true;
        t.def.defaultLength = T().getLength();
        t.def.backgroundSize = 28;
        t.def.makeDefault = [] { return std::unique_ptr<Subject>(new Subj<T>(payloadRaw<T>)); };
        t.def.makeFromRaw = [](const Bytes& b) { return std::unique_ptr<Subject>(new Subj<T>(payloadRaw<T>, b.data(), b.size())); };
        all.push_back(t.def);
    }
    return all;
}

}  // namespace fld
}  // namespace vf
