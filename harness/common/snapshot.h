// Snapshot of everything a Packet / Payload exposes through null-safe public getters.
// Used instead of the library's operator== (which is itself under test in C14).
#pragma once
#include <cstdint>
#include <string>
#include <vector>

#include <asam_cmp/packet.h>
#include <asam_cmp/payload.h>

#include "driver.h"

namespace vf {

struct PayloadSnap
{
    uint32_t type = 0;
    bool valid = false;
    uint8_t msgType = 0;
    uint8_t rawType = 0;
    std::vector<uint8_t> bytes;
    bool operator==(const PayloadSnap& o) const
    {
        return type == o.type && valid == o.valid && msgType == o.msgType && rawType == o.rawType && bytes == o.bytes;
    }
    bool operator!=(const PayloadSnap& o) const
    {
        return !(*this == o);
    }
};

inline PayloadSnap snapPayload(const ASAM::CMP::Payload& p)
{
    PayloadSnap s;
    s.type = p.getType().getType();
    s.valid = p.isValid();
    s.msgType = static_cast<uint8_t>(p.getMessageType());
    s.rawType = p.getRawPayloadType();
    const uint8_t* raw = p.getRawPayload();
    size_t n = p.getLength();
    if (n)
        s.bytes.assign(raw, raw + n);
    return s;
}

struct PacketSnap
{
    uint8_t version = 0;
    uint16_t device = 0;
    uint8_t stream = 0;
    uint16_t seq = 0;
    uint64_t ts = 0;
    uint32_t interfaceId = 0;
    uint16_t vendorId = 0;
    uint8_t flags = 0;
    uint8_t segType = 0;
    bool valid = false;
    uint16_t payloadLength = 0;
    bool hasPayload = false;
    PayloadSnap payload;

    bool operator==(const PacketSnap& o) const
    {
        return version == o.version && device == o.device && stream == o.stream && seq == o.seq && ts == o.ts &&
               interfaceId == o.interfaceId && vendorId == o.vendorId && flags == o.flags && segType == o.segType &&
               valid == o.valid && payloadLength == o.payloadLength && hasPayload == o.hasPayload &&
               (!hasPayload || payload == o.payload);
    }
    bool operator!=(const PacketSnap& o) const
    {
        return !(*this == o);
    }
    std::string str() const
    {
        char b[320];
        snprintf(b,
                 sizeof b,
                 "{ver=%u dev=%u stream=%u seq=%u ts=%llu if=%u vendor=%u flags=0x%02x seg=0x%02x valid=%d len=%u hasPayload=%d type=0x%04x bytes=",
                 version,
                 device,
                 stream,
                 seq,
                 static_cast<unsigned long long>(ts),
                 interfaceId,
                 vendorId,
                 flags,
                 segType,
                 valid,
                 payloadLength,
                 hasPayload,
                 payload.type);
        return std::string(b) + hex(payload.bytes, 48) + "}";
    }
};

// hasPayload must be known by the caller for packets that may be payload-less (default constructed):
// the library offers no null-safe way to ask, except that getPayloadLength()/isValid() are null-safe.
inline PacketSnap snapPacket(const ASAM::CMP::Packet& p, bool hasPayload = true)
{
    PacketSnap s;
    s.version = p.getVersion();
    s.device = p.getDeviceId();
    s.stream = p.getStreamId();
    s.seq = p.getSequenceCounter();
    s.ts = p.getTimestamp();
    s.interfaceId = p.getInterfaceId();
    s.vendorId = p.getVendorId();
    s.flags = p.getCommonFlags();
    s.segType = static_cast<uint8_t>(p.getSegmentType());
    s.valid = p.isValid();
    s.payloadLength = p.getPayloadLength();
    s.hasPayload = hasPayload;
    if (hasPayload)
        s.payload = snapPayload(p.getPayload());
    return s;
}

}  // namespace vf
