// Driver scaffolding shared by all harness binaries: CLI, sharding, progress witness (mmap'ed so that a
// sanitizer abort leaves the running case behind), violation log, signature sets, counters, samples.
#pragma once
#include <cstdint>
#include <cstdio>
#include <cstdlib>
#include <cstring>
#include <cinttypes>
#include <functional>
#include <map>
#include <set>
#include <string>
#include <unordered_set>
#include <vector>
#include <fcntl.h>
#include <sys/mman.h>
#include <sys/stat.h>
#include <unistd.h>
#include <sys/wait.h>
#include <csignal>

#include "prng.h"

namespace vf {

inline std::string jsonEscape(const std::string& s)
{
    std::string o;
    o.reserve(s.size() + 8);
    for (unsigned char c : s)
    {
        switch (c)
        {
            case '"': o += "\\\""; break;
            case '\\': o += "\\\\"; break;
            case '\n': o += "\\n"; break;
            case '\r': o += "\\r"; break;
            case '\t': o += "\\t"; break;
            default:
                if (c < 0x20 || c >= 0x7f)
                {
                    char b[8];
                    snprintf(b, sizeof b, "\\u%04x", c);
                    o += b;
                }
                else
                    o += static_cast<char>(c);
        }
    }
    return o;
}

inline std::string hex(const uint8_t* p, size_t n, size_t cap = 4096)
{
    static const char* d = "0123456789abcdef";
    std::string s;
    size_t m = n < cap ? n : cap;
    s.reserve(m * 2 + 16);
    for (size_t i = 0; i < m; ++i)
    {
        s += d[p[i] >> 4];
        s += d[p[i] & 15];
    }
    if (m < n)
        s += "...(" + std::to_string(n) + " bytes)";
    return s;
}
inline std::string hex(const std::vector<uint8_t>& v, size_t cap = 4096)
{
    return hex(v.data(), v.size(), cap);
}

struct Ctx
{
    std::string prop = "C00";
    std::string tier = "quick";
    uint64_t seed = 1;
    long shard = 0, nshards = 1;
    long start = 0;
    long only = -1;
    long limit = -1;  // optional cap on the case count (development)
    std::string out = "/dev/null";
    bool verbose = false;

    // results
    uint64_t evaluations = 0;
    uint64_t casesRun = 0;
    std::unordered_set<uint64_t> sigs;
    std::map<std::string, uint64_t> counters;
    std::map<std::string, std::set<std::string>> featureSets;  // small named sets (e.g. families reached)
    std::vector<std::string> samples;
    std::map<std::string, uint64_t> violCounts;
    FILE* violFile = nullptr;
    long curCase = -1;

    // progress witness
    static constexpr size_t kNoteCap = 1 << 16;
    char* prog = nullptr;

    void openProgress()
    {
        if (out == "/dev/null")
            return;
        std::string p = out + ".progress";
        int fd = open(p.c_str(), O_RDWR | O_CREAT | O_TRUNC, 0644);
        if (fd < 0)
            return;
        if (ftruncate(fd, 64 + kNoteCap) != 0)
        {
            close(fd);
            return;
        }
        void* m = mmap(nullptr, 64 + kNoteCap, PROT_READ | PROT_WRITE, MAP_SHARED, fd, 0);
        close(fd);
        if (m != MAP_FAILED)
            prog = static_cast<char*>(m);
    }
    void setProgress(long idx)
    {
        curCase = idx;
        if (prog)
        {
            snprintf(prog, 64, "%ld\n", idx);
            prog[64] = 0;
        }
    }
    // description of the input that is about to be given to the library (kept for crash witnesses)
    void note(const std::string& s)
    {
        if (!prog)
            return;
        size_t n = s.size() < kNoteCap - 1 ? s.size() : kNoteCap - 1;
        memcpy(prog + 64, s.data(), n);
        prog[64 + n] = 0;
    }

    void count(const std::string& k, uint64_t n = 1)
    {
        counters[k] += n;
    }
    void feature(const std::string& set, const std::string& member)
    {
        auto& s = featureSets[set];
        if (s.size() < 4096)
            s.insert(member);
    }
    void sig(uint64_t h)
    {
        sigs.insert(h);
    }
    void sample(const std::string& s, size_t cap = 4)
    {
        if (samples.size() < cap)
            samples.push_back(s.size() > 1500 ? s.substr(0, 1500) + "..." : s);
    }

    // An oracle failure. key: stable, line-number free. detail/input: human readable witness.
    void violation(const std::string& key, const std::string& detail, const std::string& input = "")
    {
        uint64_t& c = violCounts[key];
        ++c;
        if (c > 1 || violCounts.size() > 32)
            return;
        if (verbose)
            fprintf(stderr, "VIOL %s case=%ld %s\n", key.c_str(), curCase, detail.c_str());
        if (!violFile)
            return;
        std::string in = input.size() > 60000 ? input.substr(0, 60000) + "..." : input;
        fprintf(violFile,
                "{\"prop\":\"%s\",\"key\":\"%s\",\"case\":%ld,\"seed\":%" PRIu64 ",\"tier\":\"%s\",\"detail\":\"%s\",\"input\":\"%s\"}\n",
                prop.c_str(),
                jsonEscape(key).c_str(),
                curCase,
                seed,
                tier.c_str(),
                jsonEscape(detail).c_str(),
                jsonEscape(in).c_str());
        fflush(violFile);
    }

    bool thorough() const
    {
        return tier == "thorough";
    }

    Rng caseRng(long idx, uint64_t salt = 0) const
    {
        return Rng(mix64(mix64(seed, hashStr(prop)), mix64(static_cast<uint64_t>(idx), salt)));
    }
    // generator for the deterministic (seed independent) part
    Rng fixedRng(long idx, uint64_t salt = 0) const
    {
        return Rng(mix64(mix64(0x5eed, hashStr(prop)), mix64(static_cast<uint64_t>(idx), salt)));
    }

    void writeReport(bool complete, long total)
    {
        if (out == "/dev/null")
        {
            fprintf(stderr,
                    "[%s] cases=%" PRIu64 " evaluations=%" PRIu64 " sigs=%zu violations=%zu\n",
                    prop.c_str(),
                    casesRun,
                    evaluations,
                    sigs.size(),
                    violCounts.size());
            for (auto& c : counters)
                fprintf(stderr, "   %s=%" PRIu64 "\n", c.first.c_str(), c.second);
            for (auto& v : violCounts)
                fprintf(stderr, "   VIOL %s x%" PRIu64 "\n", v.first.c_str(), v.second);
            return;
        }
        {
            std::string sp = out + ".sigs";
            FILE* f = fopen(sp.c_str(), "wb");
            if (f)
            {
                std::vector<uint64_t> v(sigs.begin(), sigs.end());
                if (!v.empty())
                    fwrite(v.data(), sizeof(uint64_t), v.size(), f);
                fclose(f);
            }
        }
        std::string tmp = out + ".tmp";
        FILE* f = fopen(tmp.c_str(), "w");
        if (!f)
            return;
        fprintf(f,
                "{\"prop\":\"%s\",\"tier\":\"%s\",\"seed\":%" PRIu64 ",\"shard\":%ld,\"nshards\":%ld,\"start\":%ld,"
                "\"cases_total\":%ld,\"cases_run\":%" PRIu64 ",\"evaluations\":%" PRIu64 ",\"nontrivial\":%zu,\"complete\":%s,\n",
                prop.c_str(),
                tier.c_str(),
                seed,
                shard,
                nshards,
                start,
                total,
                casesRun,
                evaluations,
                sigs.size(),
                complete ? "true" : "false");
        fprintf(f, "\"counters\":{");
        bool first = true;
        for (auto& c : counters)
        {
            fprintf(f, "%s\"%s\":%" PRIu64, first ? "" : ",", jsonEscape(c.first).c_str(), c.second);
            first = false;
        }
        fprintf(f, "},\n\"features\":{");
        first = true;
        for (auto& s : featureSets)
        {
            fprintf(f, "%s\"%s\":[", first ? "" : ",", jsonEscape(s.first).c_str());
            bool f2 = true;
            for (auto& m : s.second)
            {
                fprintf(f, "%s\"%s\"", f2 ? "" : ",", jsonEscape(m).c_str());
                f2 = false;
            }
            fprintf(f, "]");
            first = false;
        }
        fprintf(f, "},\n\"violation_counts\":{");
        first = true;
        for (auto& c : violCounts)
        {
            fprintf(f, "%s\"%s\":%" PRIu64, first ? "" : ",", jsonEscape(c.first).c_str(), c.second);
            first = false;
        }
        fprintf(f, "},\n\"samples\":[");
        first = true;
        for (auto& s : samples)
        {
            fprintf(f, "%s\"%s\"", first ? "" : ",", jsonEscape(s).c_str());
            first = false;
        }
        fprintf(f, "]}\n");
        fclose(f);
        rename(tmp.c_str(), out.c_str());
    }
};

// Each driver supplies: total number of cases for (prop, tier) and a function that runs case idx.
using CountFn = std::function<long(Ctx&)>;
using CaseFn = std::function<void(Ctx&, long)>;

// Probes that run outside main(): a driver may decode / build a fixed set of inputs in a namespace-scope initialiser (its
// translation unit is linked in front of the library, so it runs before the library's own initialisers) and again in an
// atexit handler registered there (registered before the library is first used, so it runs after every function-local
// static of the library has been destroyed). A difference found after main() has returned is appended to the shard's
// violation log from the handler.
struct LateReport
{
    std::string out, prop, tier;
    uint64_t seed = 0;
    long shard = 0;
};
inline LateReport& lateReport()
{
    static LateReport l;
    return l;
}
inline void lateViolation(const std::string& key, const std::string& detail)
{
    LateReport& l = lateReport();
    if (l.out.empty() || l.out == "/dev/null")
    {
        fprintf(stderr, "VIOL %s (after main) %s\n", key.c_str(), detail.c_str());
        return;
    }
    FILE* f = fopen((l.out + ".viol").c_str(), "a");
    if (!f)
        return;
    fprintf(f, "{\"prop\":\"%s\",\"key\":\"%s\",\"case\":-3,\"seed\":%" PRIu64 ",\"tier\":\"%s\",\"detail\":\"%s\",\"input\":\"fixed set of the probe that runs outside main()\"}\n",
            l.prop.c_str(), jsonEscape(key).c_str(), l.seed, l.tier.c_str(), jsonEscape(detail).c_str());
    fclose(f);
}

// Runs a probe (a fixed set of library calls that returns one line per call) in a forked child with an alarm and returns its
// lines. Used for the probes that run during static initialisation: a call that crashes, is aborted by a sanitizer or never comes
// back there is observed (a last line "PROBE-DIED ...") instead of taking the driver down before main().
inline std::vector<std::string> probeInChild(const std::function<std::vector<std::string>()>& fn, unsigned seconds = 10)
{
    int fd[2];
    if (pipe(fd) != 0)
        return fn();
    fflush(nullptr);
    pid_t pid = fork();
    if (pid < 0)
    {
        close(fd[0]);
        close(fd[1]);
        return fn();
    }
    if (pid == 0)
    {
        close(fd[0]);
        alarm(seconds);
        std::string all;
        for (auto& l : fn())
            all += l + "\n";
        size_t off = 0;
        while (off < all.size())
        {
            ssize_t w = write(fd[1], all.data() + off, all.size() - off);
            if (w <= 0)
                break;
            off += static_cast<size_t>(w);
        }
        _exit(0);
    }
    close(fd[1]);
    std::string all;
    static char buf[65536];
    ssize_t n;
    while ((n = read(fd[0], buf, sizeof buf)) > 0)
        all.append(buf, static_cast<size_t>(n));
    close(fd[0]);
    int st = 0;
    waitpid(pid, &st, 0);
    std::vector<std::string> out;
    size_t a = 0;
    while (a < all.size())
    {
        size_t b = all.find('\n', a);
        if (b == std::string::npos)
            b = all.size();
        out.push_back(all.substr(a, b - a));
        a = b + 1;
    }
    if (!WIFEXITED(st) || WEXITSTATUS(st) != 0)
        out.push_back(std::string("PROBE-DIED: the calls made during static initialisation ended with ") +
                      (WIFSIGNALED(st) ? "signal " + std::to_string(WTERMSIG(st)) + (WTERMSIG(st) == SIGALRM ? " (no return within " + std::to_string(seconds) + " seconds)" : (WTERMSIG(st) == SIGABRT ? " (abort, e.g. a sanitizer report)" : ""))
                                       : "exit status " + std::to_string(WEXITSTATUS(st))) +
                      " after " + std::to_string(out.size()) + " results");
    return out;
}
inline std::string probeDied(const std::vector<std::string>& lines)
{
    for (auto& l : lines)
        if (l.rfind("PROBE-DIED", 0) == 0)
            return l;
    return "";
}

inline int driverMain(int argc, char** argv, const CountFn& countFn, const CaseFn& caseFn)
{
    Ctx c;
    for (int i = 1; i < argc; ++i)
    {
        std::string a = argv[i];
        auto val = [&]() -> std::string { return (i + 1 < argc) ? argv[++i] : ""; };
        if (a == "--prop") c.prop = val();
        else if (a == "--tier") c.tier = val();
        else if (a == "--seed") c.seed = strtoull(val().c_str(), nullptr, 10);
        else if (a == "--shard") c.shard = atol(val().c_str());
        else if (a == "--nshards") c.nshards = atol(val().c_str());
        else if (a == "--start") c.start = atol(val().c_str());
        else if (a == "--only") c.only = atol(val().c_str());
        else if (a == "--limit") c.limit = atol(val().c_str());
        else if (a == "--out") c.out = val();
        else if (a == "-v") c.verbose = true;
        else
        {
            fprintf(stderr, "unknown argument %s\n", a.c_str());
            return 2;
        }
    }
    if (c.nshards < 1 || c.shard < 0 || c.shard >= c.nshards)
        return 2;
    if (c.out != "/dev/null")
    {
        std::string vp = c.out + ".viol";
        c.violFile = fopen(vp.c_str(), c.start > 0 ? "a" : "w");
    }
    else
        c.verbose = true;
    c.openProgress();
    lateReport().out = c.out;
    lateReport().prop = c.prop;
    lateReport().tier = c.tier;
    lateReport().seed = c.seed;
    lateReport().shard = c.shard;
    long total = countFn(c);
    if (total < 0)
    {
        fprintf(stderr, "driver does not serve property %s\n", c.prop.c_str());
        return 2;
    }
    if (c.limit >= 0 && c.limit < total)
        total = c.limit;
    if (c.only >= 0)
    {
        c.setProgress(c.only);
        caseFn(c, c.only);
        ++c.casesRun;
    }
    else
    {
        for (long idx = c.start; idx < total; ++idx)
        {
            if (idx % c.nshards != c.shard)
                continue;
            c.setProgress(idx);
            caseFn(c, idx);
            ++c.casesRun;
        }
    }
    c.setProgress(-2);  // finished
    c.writeReport(true, total);
    if (c.violFile)
        fclose(c.violFile);
    return c.violCounts.empty() ? 0 : 1;
}

}  // namespace vf
