// Helpers shared by the decoder-side oracles: compare a decoded Packet with what the wire says.
#pragma once
#include <type_traits>
#include <memory>
#include <memory>
#include <string>
#include <vector>

#include <asam_cmp/decoder.h>

#include "driver.h"
#include "framegen.h"
#include "ref_decoder.h"
#include "snapshot.h"
#include "wire.h"

namespace vf {

using PacketPtr = std::shared_ptr<ASAM::CMP::Packet>;

// decode through a heap copy of exact size that is freed right after the call: ASan then sees any over-read
// and any later use of the caller's buffer by returned packets
inline std::vector<PacketPtr> decodeCopy(ASAM::CMP::Decoder& dec, const wire::Bytes& f)
{
    // the frame ends exactly at the end of the block; its start rotates through all eight alignments
    static thread_local unsigned turn = 0;
    const size_t k = (turn++) % 8;
    uint8_t* heap = new uint8_t[k + (f.size() ? f.size() : 1)];
    if (!f.empty())
        memcpy(heap + k, f.data(), f.size());
    auto v = dec.decode(heap + k, f.size());
    delete[] heap;
    return v;
}

// returns "" if the packet reports exactly what the wire model expects, else the name of the first differing field
inline std::string compareDelivery(const ASAM::CMP::Packet& p, const RefDelivery& e, Expect validity, std::string& detail)
{
    PacketSnap s = snapPacket(p);
    char buf[256];
    auto fail = [&](const char* field, const std::string& d) {
        detail = d + "; decoded " + s.str();
        return std::string(field);
    };
    if (s.device != e.device || s.stream != e.stream)
    {
        snprintf(buf, sizeof buf, "endpoint on the wire is device %u stream %u", e.device, e.stream);
        return fail("device-stream", buf);
    }
    if (s.version != e.version)
        return fail("version", "wire version " + std::to_string(e.version));
    if (s.ts != e.hdr.ts)
        return fail("timestamp", "wire timestamp " + std::to_string(e.hdr.ts));
    if (e.msgType == wire::MT_DATA && s.interfaceId != e.hdr.interfaceId())
        return fail("interface-id", "wire interface id " + std::to_string(e.hdr.interfaceId()));
    if ((e.msgType == wire::MT_STATUS || e.msgType == wire::MT_VENDOR) && s.vendorId != e.hdr.vendorId())
        return fail("vendor-id", "wire vendor id " + std::to_string(e.hdr.vendorId()));
    uint8_t mask = e.reassembled ? static_cast<uint8_t>(~wire::CF_SEG) : 0xFF;
    if ((s.flags & mask) != (e.hdr.flags & mask))
    {
        snprintf(buf, sizeof buf, "wire flags 0x%02x", e.hdr.flags);
        return fail("common-flags", buf);
    }
    if (s.payloadLength != e.data.size() || s.payload.bytes.size() != e.data.size())
        return fail("payload-length", "wire payload length " + std::to_string(e.data.size()));
    if (validity == EXP_INVALID)
    {
        if (s.valid)
            return fail("invalid-payload-reported-valid", "payload is inconsistent with its length or carries a bus-error flag");
        return "";
    }
    if (validity == EXP_VALID && !s.valid)
        return fail("valid-payload-reported-invalid", "payload is consistent and error free");
    if (s.valid)
    {
        if (s.payload.msgType != e.msgType)
            return fail("message-type", "wire message type " + std::to_string(e.msgType));
        if (s.payload.rawType != e.hdr.payloadType)
            return fail("payload-type", "wire payload type " + std::to_string(e.hdr.payloadType));
        if (s.payload.bytes != e.data)
        {
            size_t k = 0;
            while (k < e.data.size() && s.payload.bytes[k] == e.data[k])
                ++k;
            snprintf(buf, sizeof buf, "payload bytes differ from the wire at +%zu (wire 0x%02x)", k, e.data[k]);
            return fail("payload-bytes", buf);
        }
    }
    return "";
}

// The decoder of the pinned tree is copyable, and the monitors use that (a copy is a decoder with the same history). A change
// that takes copyability away must not stop the harness from compiling - the copy-based monitors then simply do not run.
template <typename D>
inline std::unique_ptr<D> cloneDecoder(const D& d)
{
#ifndef VF_NO_DECODER_COPY
    if constexpr (std::is_copy_constructible_v<D>)
        return std::make_unique<D>(d);
    else
        return nullptr;
#else
    // (std::is_copy_constructible cannot see a non-copyable member of an unordered_map's mapped type: vf/build.py falls back to
    // this macro when a driver does not compile otherwise)
    (void) d;
    return nullptr;
#endif
}
template <typename D>
inline bool continueOnCopy(D& d)
{
#ifdef VF_NO_DECODER_COPY
    (void) d;
    if constexpr (true)
        return false;
    else
#endif
    if constexpr (std::is_copy_constructible_v<D> && std::is_copy_assignable_v<D> && std::is_move_assignable_v<D>)
    {
        D copy(d);
        D other;
        other = copy;
        d = std::move(other);
        return true;
    }
    else
        return false;
}

inline std::string describeFrames(const std::vector<wire::Bytes>& frames, size_t upTo, size_t capEach = 96)
{
    std::string s;
    size_t from = upTo >= 8 ? upTo - 8 : 0;
    if (from > 0)
        s += "(" + std::to_string(from) + " earlier frames omitted) ";
    for (size_t i = from; i <= upTo && i < frames.size(); ++i)
        s += "f" + std::to_string(i) + "=" + hex(frames[i], capEach) + " ";
    return s;
}

}  // namespace vf
