// A process that has installed a global C++ locale with digit grouping and a decimal comma (as std::locale("") does on many
// systems). Nothing the library reports depends on it. The group size varies (1, 2 or 3 digits): values below 1000 - version
// components, lengths - are only touched by groups smaller than three.
#pragma once
#include <locale>
#include <string>

namespace vf {

struct GroupingPunct : std::numpunct<char>
{
    std::string groups;
    char sep;
    explicit GroupingPunct(unsigned variant)
        : groups(1, static_cast<char>(1 + variant % 3))
        , sep((variant / 3) % 2 ? '\'' : ',')
    {
    }
    char do_thousands_sep() const override
    {
        return sep;
    }
    std::string do_grouping() const override
    {
        return groups;
    }
    char do_decimal_point() const override
    {
        return ';';
    }
};
struct ScopedGlobalLocale
{
    std::locale old;
    explicit ScopedGlobalLocale(unsigned variant = 2)
        : old(std::locale::global(std::locale(std::locale::classic(), new GroupingPunct(variant))))
    {
    }
    ~ScopedGlobalLocale()
    {
        std::locale::global(old);
    }
};

}  // namespace vf
