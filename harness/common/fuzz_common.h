// Shared by the libFuzzer targets: oracle failure reporting (the orchestrator recognises the marker line) and
// seed-corpus writing (VF_WRITE_CORPUS=<dir>).
#pragma once
#include <cstdio>
#include <cstdlib>
#include <string>
#include <vector>

#include "prng.h"

namespace vf {

[[noreturn]] inline void fuzzViolation(const std::string& key, const std::string& detail)
{
    fprintf(stderr, "\nVF-ORACLE-VIOLATION key=%s detail=%s\n", key.c_str(), detail.c_str());
    fflush(stderr);
    abort();
}

inline void writeCorpusFile(const char* dir, size_t n, const std::vector<uint8_t>& data)
{
    char path[512];
    snprintf(path, sizeof path, "%s/seed-%04zu", dir, n);
    FILE* f = fopen(path, "wb");
    if (!f)
        return;
    if (!data.empty())
        fwrite(data.data(), 1, data.size(), f);
    fclose(f);
}

}  // namespace vf
