// Shared generators: payloads of every kind built from the wire model (never from library code),
// frame-size configurations and boundary-directed payload lengths.
#pragma once
#include <algorithm>
#include <string>
#include <vector>

#include "prng.h"
#include "wire.h"

namespace vf {

enum Kind
{
    K_CAN,
    K_CANFD,
    K_LIN,
    K_ANALOG,
    K_ETH,
    K_CM,
    K_IF,
    K_GEN_DATA,    // data message, payload type without a typed class
    K_GEN_STATUS,  // status message, payload type without a typed class
    K_CONTROL,     // control message, any payload type
    K_VENDOR,      // vendor message, any payload type
    K_OTHER_MT,    // message type outside {1,2,3,0xFF}
    K_COUNT
};

inline const char* kindName(int k)
{
    static const char* n[] = {"can", "canfd", "lin", "analog", "eth", "cm", "if", "gen-data", "gen-status", "control", "vendor", "other-mt"};
    return (k >= 0 && k < K_COUNT) ? n[k] : "?";
}

inline bool kindIsTyped(Kind k)
{
    return k <= K_IF;
}

inline size_t kindMinLen(Kind k)
{
    switch (k)
    {
        case K_CAN:
        case K_CANFD: return wire::kCanHeader;
        case K_LIN: return wire::kLinHeader;
        case K_ANALOG: return wire::kAnalogHeader;
        case K_ETH: return wire::kEthHeader;
        case K_CM: return wire::kCmHeader + 4 * 4 + 2;
        case K_IF: return wire::kIfHeader + 4;
        default: return 1;
    }
}

inline uint8_t kindMsgType(Kind k, Rng& r)
{
    switch (k)
    {
        case K_CM:
        case K_IF:
        case K_GEN_STATUS: return wire::MT_STATUS;
        case K_CONTROL: return wire::MT_CONTROL;
        case K_VENDOR: return wire::MT_VENDOR;
        case K_OTHER_MT: return static_cast<uint8_t>(r.range(4, 254));
        default: return wire::MT_DATA;
    }
}

inline uint8_t kindPayloadType(Kind k, Rng& r)
{
    switch (k)
    {
        case K_CAN: return wire::PT_CAN;
        case K_CANFD: return wire::PT_CANFD;
        case K_LIN: return wire::PT_LIN;
        case K_ANALOG: return wire::PT_ANALOG;
        case K_ETH: return wire::PT_ETHERNET;
        case K_CM: return wire::PT_CM_STATUS;
        case K_IF: return wire::PT_IF_STATUS;
        case K_GEN_DATA:
        {
            // any payload type byte of a data message that has no typed class: 4,5,6,9..255
            static const uint8_t lo[] = {4, 5, 6};
            if (r.chance(1, 3))
                return lo[r.below(3)];
            return static_cast<uint8_t>(r.range(9, 255));
        }
        case K_GEN_STATUS: return static_cast<uint8_t>(r.range(3, 255));
        default: return static_cast<uint8_t>(r.range(1, 255));
    }
}

inline std::string randomString(Rng& r, size_t n)
{
    std::string s(n, 'x');
    for (auto& c : s)
        c = static_cast<char>(r.range(0x20, 0x7e));
    return s;
}

// A payload of kind k that the wire model calls consistent and free of bus errors, of exactly
// max(L, kindMinLen(k)) bytes (CAN/LIN carry at most 255 data bytes: the rest is trailing payload bytes).
inline wire::Bytes genPayload(Kind k, size_t L, Rng& r)
{
    using namespace wire;
    L = std::max(L, kindMinLen(k));
    switch (k)
    {
        case K_CAN:
        case K_CANFD:
        {
            Can c;
            size_t room = L - kCanHeader;
            size_t dl = std::min<size_t>(room, 255);
            if (room > 0 && r.chance(1, 8))
                dl = r.below(dl + 1);  // data length smaller than what follows is still consistent
            c.flags = static_cast<uint16_t>(r.next() & ~kCanErrorFlags & 0x3FFF);
            c.id = static_cast<uint32_t>(r.next()) & 0x1FFFFFFF;
            c.ide = r.chance(1, 2);
            c.rtr = r.chance(1, 2);
            c.rsvd = r.chance(1, 4);
            c.crc = static_cast<uint32_t>(r.next()) & (k == K_CAN ? 0x7FFF : 0x1FFFFF);
            c.crcSupport = r.chance(1, 2);
            if (k == K_CANFD)
            {
                c.sbc = static_cast<uint8_t>(r.below(8));
                c.sbcParity = r.chance(1, 2);
                c.sbcSupport = r.chance(1, 2);
            }
            c.errorPosition = 0;
            int code = canDlcForLength(static_cast<unsigned>(dl));
            c.dlc = static_cast<uint8_t>(code >= 0 ? code : r.below(16));
            c.dataLength = static_cast<uint8_t>(dl);
            c.data = r.bytes(room);
            return c.serialize(k == K_CANFD);
        }
        case K_LIN:
        {
            Lin l;
            size_t room = L - kLinHeader;
            size_t dl = std::min<size_t>(room, 255);
            if (room > 0 && r.chance(1, 8))
                dl = r.below(dl + 1);
            l.flags = static_cast<uint16_t>(r.next() & 0x01FF);
            l.pid = r.byte();
            l.checksum = r.byte();
            l.dataLength = static_cast<uint8_t>(dl);
            l.data = r.bytes(room);
            return l.serialize();
        }
        case K_ETH:
        {
            Eth e;
            size_t room = L - kEthHeader;
            e.flags = static_cast<uint16_t>(r.next() & 0x0080);  // FCS-support only: no error and no ambiguous bits
            e.dataLength = static_cast<uint16_t>(r.chance(1, 8) ? r.below(room + 1) : room);
            e.data = r.bytes(room);
            return e.serialize();
        }
        case K_ANALOG:
        {
            Analog a;
            size_t room = L - kAnalogHeader;
            a.flags = static_cast<uint16_t>(r.below(2));
            a.unit = static_cast<uint8_t>(r.below(0x55));
            a.intervalBits = static_cast<uint32_t>(r.next());
            a.offsetBits = static_cast<uint32_t>(r.next());
            a.scalarBits = static_cast<uint32_t>(r.next());
            a.data = r.bytes(room);
            return a.serialize();
        }
        case K_CM:
        {
            Cm c;
            c.uptime = r.next();
            c.gmIdentity = r.next();
            c.gmClockQuality = static_cast<uint32_t>(r.next());
            c.utcOffset = static_cast<uint16_t>(r.next());
            c.timeSource = r.byte();
            c.domain = r.byte();
            c.gptpFlags = r.byte();
            size_t slack = L - kindMinLen(K_CM);  // bytes to distribute over strings (even steps) and vendor data
            std::string* strs[4] = {&c.description, &c.serial, &c.hwVersion, &c.swVersion};
            for (auto* s : strs)
            {
                size_t want = std::min<size_t>(r.below(24), slack);
                // a string of n chars occupies 2 + n + (n odd ? 1 : 2) bytes; the empty string occupies 4
                size_t n = want;
                size_t occupied = 2 + n + ((n % 2) ? 1 : 2);
                size_t extra = occupied - 4;
                if (extra > slack)
                {
                    n = 0;
                    extra = 0;
                }
                *s = randomString(r, n);
                slack -= extra;
            }
            c.vendorData = r.bytes(slack);
            return c.serialize();
        }
        case K_IF:
        {
            If f;
            f.interfaceId = static_cast<uint32_t>(r.next());
            f.msgTotalRx = static_cast<uint32_t>(r.next());
            f.msgTotalTx = static_cast<uint32_t>(r.next());
            f.msgDroppedRx = static_cast<uint32_t>(r.next());
            f.msgDroppedTx = static_cast<uint32_t>(r.next());
            f.errorsTotalRx = static_cast<uint32_t>(r.next());
            f.errorsTotalTx = static_cast<uint32_t>(r.next());
            f.interfaceType = r.byte();
            f.interfaceStatus = static_cast<uint8_t>(r.below(3));
            f.featureBitmask = static_cast<uint32_t>(r.next());
            size_t slack = L - kindMinLen(K_IF);
            size_t ids = std::min<size_t>(r.below(12), slack);
            size_t occ = ids + (ids % 2);
            if (occ > slack)
            {
                ids = 0;
                occ = 0;
            }
            f.streamIds = r.bytes(ids);
            f.vendorData = r.bytes(slack - occ);
            return f.serialize();
        }
        default:
        {
            // content classes: random, all zero (looks like padding), all ones, a text-like run, bytes that look like a CMP
            // message header / frame header embedded in the data
            unsigned w = static_cast<unsigned>(r.below(20));
            if (w < 13)
                return r.bytes(L);
            if (w < 15)
                return wire::Bytes(L, 0x00);
            if (w < 16)
                return wire::Bytes(L, 0xFF);
            if (w < 17)
            {
                wire::Bytes b(L);
                for (size_t i = 0; i < L; ++i)
                    b[i] = static_cast<uint8_t>('a' + i % 26);
                return b;
            }
            wire::Bytes b = r.bytes(L);
            for (size_t off = r.below(24); off + 16 <= L; off += 16 + r.below(40))
            {
                // ts, id word, flags (random segment bits), payload type, plausible length
                b[off + 12] = static_cast<uint8_t>(r.pick<uint8_t>({0x00, 0x04, 0x08, 0x0C, 0x40}));
                b[off + 13] = static_cast<uint8_t>(r.range(1, 8));
                wire::set16(b.data() + off + 14, static_cast<uint16_t>(r.below(64)));
            }
            return b;
        }
    }
}

// ---------------------------------------------------------------------------------------------
// Frame-size configurations and boundary-directed lengths (DESIGN.md section 5)

struct Config
{
    size_t min = 0, max = 1500;
};

inline size_t genMax(Rng& r)
{
    unsigned w = static_cast<unsigned>(r.below(100));
    if (w < 50)
        return r.range(25, 200);
    if (w < 65)
        return r.range(1400, 1600);
    if (w < 70)
        return r.range(65535 + 24 - 3, 65535 + 24);
    return r.logRange(25, 65535 + 24);
}

inline size_t genMin(Rng& r, size_t max)
{
    size_t c[] = {0, 1, 8, 9, 24, 25, 64, max - 1, max, static_cast<size_t>(r.range(0, max))};
    size_t v = c[r.below(sizeof c / sizeof c[0])];
    return std::min(v, max);
}

inline Config genConfig(Rng& r)
{
    Config c;
    c.max = genMax(r);
    c.min = r.chance(1, 2) ? 0 : genMin(r, c.max);
    return c;
}

// remaining: bytes still free for messages in the current frame (0 if unknown / no frame open)
inline size_t genLen(Rng& r, size_t max, size_t remaining, bool allowHuge)
{
    const long cap = static_cast<long>(max) - 24;  // payload capacity of an empty frame
    long v;
    unsigned w = static_cast<unsigned>(r.below(100));
    if (w < 10)
        v = static_cast<long>(r.range(1, 2));
    else if (w < 35)
        v = cap + static_cast<long>(r.range(0, 4)) - 2;
    else if (w < 45)
        v = static_cast<long>(r.range(2, 3)) * cap + static_cast<long>(r.range(0, 4)) - 2;
    else if (w < 65 && remaining >= 16)
        v = static_cast<long>(remaining) - 16 + static_cast<long>(r.range(0, 4)) - 2;
    else if (w < 68 && allowHuge)
        v = static_cast<long>(r.range(65533, 65535));
    else if (w < 85)
        v = static_cast<long>(r.logRange(1, std::max<long>(2, std::min<long>(4 * cap, 65535))));
    else
        v = static_cast<long>(r.logRange(1, allowHuge ? 65535 : 4096));
    if (v < 1)
        v = 1;
    if (v > 65535)
        v = 65535;
    return static_cast<size_t>(v);
}

}  // namespace vf
