// C15 oracle: independent parse of a TECMP frame -> what must come out of the decoder; comparison of a converted packet.
#pragma once
#include <string>
#include <vector>

#include <asam_cmp/packet.h>

#include "accessors.h"
#include "prng.h"
#include "snapshot.h"
#include "wire.h"

namespace vf {
namespace tec {

using namespace wire;

enum Want
{
    W_NONE,      // must yield no packet
    W_PACKETS,   // must yield exactly the expected packets
    W_NONE_OR_CORRECT,  // statement does not fix it: either nothing or the expected packets
    W_SAFETY_ONLY
};

struct ExpPacket
{
    int kind;  // 0 can-like, 1 lin, 2 cm, 3 bus entry
    uint32_t interfaceId;
    uint32_t id;  // arbitration id & 0x1FFFFFFF / lin id
    Bytes data;
    bool hasChecksum = false;
    uint8_t checksum = 0;
    std::string serial, hw, sw;
    uint32_t messagesTotal = 0, errorsTotal = 0;
};

struct TCase
{
    Tecmp h;
    Bytes payload;
    Want want = W_NONE;
    std::vector<ExpPacket> exp;
    std::string what;
    uint64_t sig = 0;
};

inline void fillHeader(Tecmp& t, Rng& r)
{
    t.device = r.byte();
    t.counter = static_cast<uint16_t>(r.next());
    t.version = r.byte();
    t.reserved = static_cast<uint16_t>(r.next());
    t.deviceFlags = static_cast<uint16_t>(r.next());
    t.interfaceId = r.chance(1, 6) ? r.pick<uint32_t>({0, 1, 0xFFFFFFFFu, 0x80000000u}) : static_cast<uint32_t>(r.next());
    t.timestamp = r.chance(1, 6) ? r.pick<uint64_t>({0, 1, 0xFFFFFFFFFFFFFFFFULL}) : r.next();
    t.dataFlags = static_cast<uint16_t>(r.next());
}

// independent parse: what must come out of this frame
// The kind of a status message is its message type; the data type field of a status message is one of the "header fields
// arbitrary" of C15's quantifier, so every value must still convert - except the two byte orders of the library's
// "invalid" marker 0xFF (wire 00 FF and wire FF 00), on which the statement is silent: those run under the weaker
// oracle "no packet or the correct packet".
inline bool statusDataTypeSettled(uint16_t dataType)
{
    return dataType != 0x00FF && dataType != 0xFF00;
}

inline void expectation(TCase& tc)
{
    const Bytes& p = tc.payload;
    const Tecmp& h = tc.h;
    tc.exp.clear();
    bool supportedStatus = (h.msgType == TMT_CM_STATUS || h.msgType == TMT_BUS_STATUS);
    bool supportedData = h.msgType == TMT_DATA && (h.dataType == TDT_CAN || h.dataType == TDT_CANFD || h.dataType == TDT_LIN);
    if (h.payloadLength != p.size())
    {
        // declared length larger than what is there: does not fit -> nothing; smaller: trailing bytes -> safety oracle only
        tc.want = h.payloadLength > p.size() ? W_NONE : W_SAFETY_ONLY;
        return;
    }
    if (!supportedStatus && !supportedData)
    {
        tc.want = W_NONE;
        return;
    }
    if (p.empty())
    {
        tc.want = W_NONE;  // nothing to convert
        return;
    }
    if (supportedData && (h.dataType == TDT_CAN || h.dataType == TDT_CANFD))
    {
        if (p.size() < 5 || static_cast<size_t>(p[4]) > p.size() - 5)
        {
            tc.want = W_NONE;
            return;
        }
        ExpPacket e;
        e.kind = 0;
        e.interfaceId = h.interfaceId;
        e.id = get32(p.data()) & 0x1FFFFFFF;
        e.data.assign(p.begin() + 5, p.begin() + 5 + p[4]);
        tc.exp.push_back(e);
        // data lengths beyond what the bus admits are not "well-formed messages of a supported kind"
        size_t limit = h.dataType == TDT_CAN ? 8 : 64;
        tc.want = p[4] <= limit ? W_PACKETS : W_NONE_OR_CORRECT;
        return;
    }
    if (supportedData)
    {
        if (p.size() < 2 || static_cast<size_t>(p[1]) > p.size() - 2)
        {
            tc.want = W_NONE;
            return;
        }
        ExpPacket e;
        e.kind = 1;
        e.interfaceId = h.interfaceId;
        e.id = p[0] & 0x3F;
        e.data.assign(p.begin() + 2, p.begin() + 2 + p[1]);
        if (p.size() > 2u + p[1])
        {
            e.hasChecksum = true;
            e.checksum = p[2 + p[1]];
        }
        tc.exp.push_back(e);
        tc.want = p[1] <= 8 ? W_PACKETS : W_NONE_OR_CORRECT;
        return;
    }
    if (h.msgType == TMT_CM_STATUS)
    {
        if (p.size() < 36)
        {
            tc.want = W_NONE;
            return;
        }
        ExpPacket e;
        e.kind = 2;
        e.interfaceId = h.interfaceId;
        e.serial = std::to_string(get32(p.data() + 8));
        e.sw = "v" + std::to_string(p[13]) + "." + std::to_string(p[14]) + "." + std::to_string(p[15]);
        e.hw = "v" + std::to_string(p[16]) + "." + std::to_string(p[17]);
        tc.exp.push_back(e);
        tc.want = statusDataTypeSettled(h.dataType) ? W_PACKETS : W_NONE_OR_CORRECT;
        return;
    }
    // bus status
    if (p.size() < 12)
    {
        tc.want = W_NONE;
        return;
    }
    for (size_t off = 12; off + 12 <= p.size(); off += 12)
    {
        ExpPacket e;
        e.kind = 3;
        e.interfaceId = get32(p.data() + off);
        e.messagesTotal = get32(p.data() + off + 4);
        e.errorsTotal = get32(p.data() + off + 8);
        tc.exp.push_back(e);
    }
    bool tail = (p.size() - 12) % 12 != 0;  // an incomplete entry at the end: not well-formed
    tc.want = (statusDataTypeSettled(h.dataType) && !tail) ? W_PACKETS : W_NONE_OR_CORRECT;
}

inline std::string comparePacket(const ASAM::CMP::Packet& p, const Tecmp& h, const ExpPacket& e, std::string& detail)
{
    using PT = ASAM::CMP::PayloadType;
    PacketSnap s = snapPacket(p);
    auto fail = [&](const char* f, const std::string& d) {
        detail = d + "; packet " + s.str();
        return std::string(f);
    };
    if (!s.valid)
        return fail("converted-packet-invalid", "packet is not valid");
    if (s.device != h.device)
        return fail("device-id", "TECMP device id byte is " + std::to_string(h.device));
    if (s.ts != h.timestamp)
        return fail("timestamp", "TECMP timestamp is " + std::to_string(h.timestamp));
    if (s.interfaceId != e.interfaceId)
        return fail("interface-id", "expected interface id " + std::to_string(e.interfaceId));
    const ASAM::CMP::Payload& pl = p.getPayload();
    uint32_t t = pl.getType().getType();
    AccessResult ar;
    accessTyped(ar, pl);
    if (!ar.badView.empty())
        return fail("converted-packet-view-outside", ar.detail);
    switch (e.kind)
    {
        case 0:
        {
            if (t != PT::can && t != PT::canFd)
                return fail("payload-class", "CAN message converted to payload type " + std::to_string(t));
            const auto& c = static_cast<const ASAM::CMP::CanPayloadBase&>(pl);
            if (c.getId() != e.id)
                return fail("arbitration-id", "TECMP arbitration id & 0x1FFFFFFF is " + std::to_string(e.id) + ", packet reports " + std::to_string(c.getId()));
            if (c.getDataLength() != e.data.size())
                return fail("data-length", "TECMP data length is " + std::to_string(e.data.size()) + ", packet reports " + std::to_string(c.getDataLength()));
            if (!e.data.empty() && (c.getData() == nullptr || memcmp(c.getData(), e.data.data(), e.data.size()) != 0))
                return fail("data-bytes", "data bytes differ from the TECMP message");
            return "";
        }
        case 1:
        {
            if (t != PT::lin)
                return fail("payload-class", "LIN message converted to payload type " + std::to_string(t));
            const auto& l = static_cast<const ASAM::CMP::LinPayload&>(pl);
            if (l.getLinId() != e.id)
                return fail("lin-id", "TECMP pid & 0x3F is " + std::to_string(e.id) + ", packet reports " + std::to_string(l.getLinId()));
            if (l.getDataLength() != e.data.size())
                return fail("data-length", "TECMP data length is " + std::to_string(e.data.size()) + ", packet reports " + std::to_string(l.getDataLength()));
            if (!e.data.empty() && (l.getData() == nullptr || memcmp(l.getData(), e.data.data(), e.data.size()) != 0))
                return fail("data-bytes", "data bytes differ from the TECMP message");
            if (e.hasChecksum && l.getChecksum() != e.checksum)
                return fail("lin-checksum", "TECMP checksum byte is " + std::to_string(e.checksum) + ", packet reports " + std::to_string(l.getChecksum()));
            return "";
        }
        case 2:
        {
            if (t != PT::cmStatMsg)
                return fail("payload-class", "capture module status converted to payload type " + std::to_string(t));
            const auto& c = static_cast<const ASAM::CMP::CaptureModulePayload&>(pl);
            if (c.getSerialNumber() != e.serial)
                return fail("serial-number-string", "expected \"" + e.serial + "\", packet reports \"" + std::string(c.getSerialNumber()) + "\"");
            if (c.getHardwareVersion() != e.hw)
                return fail("hardware-version-string", "expected \"" + e.hw + "\", packet reports \"" + std::string(c.getHardwareVersion()) + "\"");
            if (c.getSoftwareVersion() != e.sw)
                return fail("software-version-string", "expected \"" + e.sw + "\", packet reports \"" + std::string(c.getSoftwareVersion()) + "\"");
            return "";
        }
        default:
        {
            if (t != PT::ifStatMsg)
                return fail("payload-class", "bus status entry converted to payload type " + std::to_string(t));
            const auto& i = static_cast<const ASAM::CMP::InterfacePayload&>(pl);
            if (i.getInterfaceId() != e.interfaceId)
                return fail("entry-interface-id", "entry interface id " + std::to_string(e.interfaceId) + ", payload reports " + std::to_string(i.getInterfaceId()));
            if (i.getMsgTotalRx() != e.messagesTotal)
                return fail("entry-messages-total", "entry messages total " + std::to_string(e.messagesTotal) + ", payload reports " + std::to_string(i.getMsgTotalRx()));
            if (i.getErrorsTotalRx() != e.errorsTotal)
                return fail("entry-errors-total", "entry errors total " + std::to_string(e.errorsTotal) + ", payload reports " + std::to_string(i.getErrorsTotalRx()));
            return "";
        }
    }
}


// parse a raw buffer (>= 28 bytes, first byte 0) back into header + payload (everything after the header)
inline TCase fromRaw(const Bytes& f)
{
    TCase tc;
    const uint8_t* p = f.data();
    tc.h.marker = p[0];
    tc.h.device = p[1];
    tc.h.counter = get16(p + 2);
    tc.h.version = p[4];
    tc.h.msgType = p[5];
    tc.h.dataType = get16(p + 6);
    tc.h.reserved = get16(p + 8);
    tc.h.deviceFlags = get16(p + 10);
    tc.h.interfaceId = get32(p + 12);
    tc.h.timestamp = get64(p + 16);
    tc.h.payloadLength = get16(p + 24);
    tc.h.dataFlags = get16(p + 26);
    tc.payload.assign(f.begin() + 28, f.end());
    tc.what = "raw TECMP frame";
    return tc;
}

}  // namespace tec
}  // namespace vf
