// C06: loss, duplication, reordering, version / type corruption never yield a corrupted packet, and the
// decoder recovers. Model-free oracles: O1 integrity via unique ids embedded in the content, O2 recovery.
#pragma once
#include "failpoint.h"
#include <map>

#include "dec_common.h"

namespace vf {
namespace c06 {

struct Sent
{
    uint32_t id;
    uint8_t ver, mt, ptype, flags;
    uint64_t ts;
    uint32_t idWord;
    Bytes data;
    bool segmented;
    int endpoint;
    std::vector<int> frames;  // indices (into Stream::frames) of the frames carrying it
    bool invalid = false;     // sent with the error-in-payload flag or payload type 0: the decoder need not deliver it (C04's business)
};

struct OFrame
{
    int endpoint;
    Bytes raw;
    int role;  // 0 unsegmented, 1 first, 2 middle, 3 last
    std::vector<int> msgs;
};

struct StreamSet
{
    std::vector<Sent> msgs;
    std::vector<OFrame> frames;  // merged, in sending order
    std::vector<std::pair<uint16_t, uint8_t>> eps;
};

inline Bytes content(uint32_t id, size_t n)
{
    Bytes b(n);
    for (size_t i = 0; i < n; ++i)
    {
        uint64_t s = (static_cast<uint64_t>(id) << 32) | i;
        b[i] = static_cast<uint8_t>(splitmix64(s));
    }
    if (n >= 4)
        wire::set32(b.data(), id);
    return b;
}

inline StreamSet genStreams(Rng& r, size_t nEndpoints, size_t targetFrames)
{
    StreamSet S;
    const bool wideIds = r.chance(1, 4);
    if (wideIds && nEndpoints >= 2 && r.chance(1, 3))
    {
        auto pr = decimalAliasPair(r);
        S.eps.push_back(pr.first);
        S.eps.push_back(pr.second);
    }
    while (S.eps.size() < nEndpoints)
    {
        std::pair<uint16_t, uint8_t> e{pickDevice(r), pickStream(r)};
        if (wideIds)
            e = {static_cast<uint16_t>(r.next()), r.byte()};
        if (std::find(S.eps.begin(), S.eps.end(), e) == S.eps.end())
            S.eps.push_back(e);
    }
    std::vector<std::vector<OFrame>> per(nEndpoints);
    std::vector<uint16_t> seq(nEndpoints);
    for (auto& s : seq)
        s = r.chance(1, 3) ? static_cast<uint16_t>(r.range(65520, 65535)) : static_cast<uint16_t>(r.next());
    size_t produced = 0;
    uint32_t nextId = static_cast<uint32_t>(r.next() | 0x01000000u);
    while (produced < targetFrames)
    {
        size_t e = r.below(nEndpoints);
        uint8_t ver = static_cast<uint8_t>(r.range(1, 3));
        uint8_t mt = r.chance(1, 4) ? wire::MT_STATUS : wire::MT_DATA;
        if (r.chance(2, 5))
        {
            // unsegmented frame, 1..3 aggregated messages
            size_t k = r.range(1, 3);
            OFrame f;
            f.endpoint = static_cast<int>(e);
            f.role = 0;
            std::vector<GMsg> ms;
            for (size_t i = 0; i < k; ++i)
            {
                Sent s;
                s.id = nextId++;
                s.ver = ver;
                s.mt = mt;
                s.ptype = static_cast<uint8_t>(r.range(0x10, 0xF0));
                s.flags = static_cast<uint8_t>(r.next()) & static_cast<uint8_t>(~(wire::CF_ERROR | wire::CF_SEG));
                s.ts = r.next();
                s.idWord = static_cast<uint32_t>(r.next());
                s.data = content(s.id, r.range(4, 40));
                s.segmented = false;
                s.endpoint = static_cast<int>(e);
                if (r.chance(1, 12))
                {
                    // a message an encoder may legally send but that the decoder treats as invalid
                    s.invalid = true;
                    if (r.chance(1, 2))
                        s.flags |= wire::CF_ERROR;
                    else
                        s.ptype = 0;
                }
                GMsg m;
                m.ts = s.ts;
                m.idWord = s.idWord;
                m.flags = s.flags;
                m.ptype = s.ptype;
                m.payload = s.data;
                ms.push_back(m);
                f.msgs.push_back(static_cast<int>(S.msgs.size()));
                S.msgs.push_back(std::move(s));
            }
            f.raw = buildFrame(ver, S.eps[e].first, mt, S.eps[e].second, seq[e]++, ms);
            per[e].push_back(std::move(f));
            ++produced;
        }
        else
        {
            size_t nseg = r.range(2, 8);
            Sent s;
            s.id = nextId++;
            s.ver = ver;
            s.mt = mt;
            s.ptype = static_cast<uint8_t>(r.range(0x10, 0xF0));
            s.flags = static_cast<uint8_t>(r.next()) & static_cast<uint8_t>(~(wire::CF_ERROR | wire::CF_SEG));
            s.ts = r.next();
            s.idWord = static_cast<uint32_t>(r.next());
            size_t segLen = r.range(4, 24);  // a correct encoder: all but the last segment equally full
            size_t lastLen = r.range(1, segLen);
            s.data = content(s.id, segLen * (nseg - 1) + lastLen);
            s.segmented = true;
            s.endpoint = static_cast<int>(e);
            int mi = static_cast<int>(S.msgs.size());
            for (size_t i = 0; i < nseg; ++i)
            {
                GMsg m;
                m.ts = s.ts;
                m.idWord = s.idWord;
                m.flags = s.flags | (i == 0 ? wire::SEG_FIRST : (i + 1 == nseg ? wire::SEG_LAST : wire::SEG_MID));
                m.ptype = s.ptype;
                size_t off = i * segLen, n = (i + 1 == nseg) ? lastLen : segLen;
                m.payload.assign(s.data.begin() + static_cast<long>(off), s.data.begin() + static_cast<long>(off + n));
                OFrame f;
                f.endpoint = static_cast<int>(e);
                f.role = i == 0 ? 1 : (i + 1 == nseg ? 3 : 2);
                f.msgs.push_back(mi);
                f.raw = buildFrame(ver, S.eps[e].first, mt, S.eps[e].second, seq[e]++, {m});
                per[e].push_back(std::move(f));
                ++produced;
            }
            S.msgs.push_back(std::move(s));
        }
    }
    // merge the endpoint streams, preserving per-endpoint order
    std::vector<size_t> pos(nEndpoints, 0);
    size_t left = produced;
    while (left)
    {
        size_t e = r.below(nEndpoints);
        if (pos[e] >= per[e].size())
            continue;
        OFrame f = std::move(per[e][pos[e]++]);
        for (int mi : f.msgs)
            S.msgs[static_cast<size_t>(mi)].frames.push_back(static_cast<int>(S.frames.size()));
        S.frames.push_back(std::move(f));
        --left;
    }
    return S;
}

enum FaultKind
{
    F_DROP,
    F_DUP,
    F_SWAP,
    F_VERSION,
    F_TYPE,
    F_KINDS,        // the five single-frame faults of the exhaustive part end here
    F_BURST_DROP,   // `dist` consecutive frames lost
    F_DISPLACE,     // one frame moved `dist` positions later
    F_ALLOC         // the decode call for this frame is cut short by std::bad_alloc at allocation number dist / 2 of that call
                    // (a frame lost half-way through its processing); dist odd: the frame is offered again straight away
};
inline const char* faultName(int k)
{
    static const char* n[] = {"drop", "dup", "swap", "corrupt-version", "corrupt-type", "?", "burst-drop", "displace", "allocation-failure"};
    return n[k];
}
struct Fault
{
    int kind;
    size_t pos;
    size_t dist;  // for dup: where the copy goes (1..3 frames later)
};

struct FFrame
{
    int orig;        // index into StreamSet::frames
    bool corrupted;  // version / type changed
    Bytes raw;
    long failAlloc = -1;  // >= 0: this allocation of the decode call fails
    bool retry = false;   // the frame is offered again after the failed call
};

inline std::vector<FFrame> applyFaults(const StreamSet& S, const std::vector<Fault>& faults, Rng& r, std::string& log, uint64_t& sig, bool& hitSegmented)
{
    std::vector<FFrame> L;
    for (size_t i = 0; i < S.frames.size(); ++i)
        L.push_back({static_cast<int>(i), false, S.frames[i].raw});
    sig = 0x99;
    hitSegmented = false;
    for (auto& f : faults)
    {
        if (L.empty())
            break;
        size_t p = f.pos % L.size();
        int role = S.frames[static_cast<size_t>(L[p].orig)].role;
        switch (f.kind)
        {
            case F_DROP:
                log += "drop(" + std::to_string(p) + ") ";
                L.erase(L.begin() + static_cast<long>(p));
                break;
            case F_DUP:
            {
                size_t q = std::min(L.size(), p + f.dist);
                log += "dup(" + std::to_string(p) + "->" + std::to_string(q) + ") ";
                FFrame copy = L[p];
                L.insert(L.begin() + static_cast<long>(q), copy);
                break;
            }
            case F_SWAP:
                if (p + 1 < L.size())
                {
                    log += "swap(" + std::to_string(p) + ") ";
                    std::swap(L[p], L[p + 1]);
                }
                break;
            case F_BURST_DROP:
            {
                size_t n = std::min(f.dist, L.size() - p);
                log += "burst-drop(" + std::to_string(p) + "," + std::to_string(n) + ") ";
                L.erase(L.begin() + static_cast<long>(p), L.begin() + static_cast<long>(p + n));
                break;
            }
            case F_ALLOC:
                L[p].failAlloc = static_cast<long>(f.dist / 2);
                L[p].retry = f.dist % 2;
                log += "allocation-failure(" + std::to_string(p) + ",allocation " + std::to_string(f.dist / 2) + (L[p].retry ? ",frame offered again) " : ") ");
                break;
            case F_DISPLACE:
            {
                size_t q = std::min(L.size() - 1, p + f.dist);
                log += "displace(" + std::to_string(p) + "->" + std::to_string(q) + ") ";
                FFrame x = L[p];
                L.erase(L.begin() + static_cast<long>(p));
                L.insert(L.begin() + static_cast<long>(q), x);
                break;
            }
            case F_VERSION:
                if (role != 0)
                {
                    uint8_t old = L[p].raw[0];
                    uint8_t nv = static_cast<uint8_t>(1 + (old + r.range(0, 250)) % 255);
                    if (nv == old)
                        nv = static_cast<uint8_t>(old == 255 ? 1 : old + 1);
                    L[p].raw[0] = nv;
                    L[p].corrupted = true;
                    log += "version(" + std::to_string(p) + ") ";
                }
                break;
            default:
                if (role != 0)
                {
                    static const uint8_t types[] = {wire::MT_DATA, wire::MT_CONTROL, wire::MT_STATUS, wire::MT_VENDOR, 0x42};
                    uint8_t old = L[p].raw[4], nt;
                    do
                        nt = types[r.below(5)];
                    while (nt == old);
                    L[p].raw[4] = nt;
                    L[p].corrupted = true;
                    log += "type(" + std::to_string(p) + ") ";
                }
                break;
        }
        sig = mix64(sig, static_cast<uint64_t>(f.kind) * 8 + static_cast<uint64_t>(role));
        if (role != 0)
            hitSegmented = true;
    }
    return L;
}

inline void runFaulted(Ctx& c, const StreamSet& S, const std::vector<FFrame>& L, const std::string& faultLog)
{
    // which messages were hit by a corrupt fault (their version / type / id may legitimately differ)
    std::vector<bool> msgCorrupted(S.msgs.size(), false);
    for (auto& f : L)
        if (f.corrupted)
            for (int mi : S.frames[static_cast<size_t>(f.orig)].msgs)
                msgCorrupted[static_cast<size_t>(mi)] = true;
    std::map<uint32_t, int> byId;
    for (size_t i = 0; i < S.msgs.size(); ++i)
        byId[S.msgs[i].id] = static_cast<int>(i);
    for (auto& f : L)
        for (int mi : S.frames[static_cast<size_t>(f.orig)].msgs)
            if (S.msgs[static_cast<size_t>(mi)].invalid)
                c.count("invalid_messages_fed_between_the_others");

    // O2: deliveries that must happen, keyed by call index
    std::map<size_t, std::vector<int>> mustDeliver;
    std::vector<std::vector<size_t>> sub(S.eps.size());
    for (size_t i = 0; i < L.size(); ++i)
        sub[static_cast<size_t>(S.frames[static_cast<size_t>(L[i].orig)].endpoint)].push_back(i);
    for (auto& idxs : sub)
    {
        for (size_t p = 0; p < idxs.size(); ++p)
        {
            const FFrame& ff = L[idxs[p]];
            const OFrame& of = S.frames[static_cast<size_t>(ff.orig)];
            if (ff.corrupted || ff.failAlloc >= 0)
                continue;
            if (of.role == 0)
            {
                // (the messages behind an invalid one in the same frame are not demanded: the decoder stops reading the frame there)
                for (int mi : of.msgs)
                {
                    if (S.msgs[static_cast<size_t>(mi)].invalid)
                        break;
                    mustDeliver[idxs[p]].push_back(mi);
                }
            }
            else if (of.role == 3)
            {
                const Sent& m = S.msgs[static_cast<size_t>(of.msgs[0])];
                size_t n = m.frames.size();
                if (p + 1 < n)
                    continue;
                bool ok = true;
                for (size_t k = 0; k < n && ok; ++k)
                {
                    const FFrame& g = L[idxs[p + 1 - n + k]];
                    if (g.corrupted || g.failAlloc >= 0 || g.orig != m.frames[k])
                        ok = false;
                }
                if (ok)
                    mustDeliver[idxs[p]].push_back(of.msgs[0]);
            }
        }
    }

    ASAM::CMP::Decoder dec;
    // a copy of the decoder taken somewhere in the faulted stream and fed the same frames from then on, next to the original:
    // it is a decoder with the same history and owes the same deliveries
    std::unique_ptr<ASAM::CMP::Decoder> twin;
    bool anyAllocFault = false;
    for (auto& f : L)
        anyAllocFault = anyAllocFault || f.failAlloc >= 0;
    // (a twin cannot be given "the same" aborted call: none in streams with allocation failures)
    const size_t twinAt = (L.size() >= 3 && L.size() <= 400 && !anyAllocFault) ? mix64(L.size(), L[0].raw.size()) % (L.size() - 1) : L.size();
    std::vector<Bytes> fed;
    char buf[300];
    std::map<int, std::vector<size_t>> deliveredAt;
    for (size_t call = 0; call < L.size(); ++call)
    {
        fed.push_back(L[call].raw);
        c.note("faults=" + faultLog + " stream=" + describeFrames(fed, call));
        if (call == twinAt)
        {
            twin = cloneDecoder(dec);
            if (twin)
                c.count("decoder_twins_used_next_to_the_original");
        }
        std::vector<std::shared_ptr<ASAM::CMP::Packet>> gotTwin;
        const bool twinFirst = twin && (call % 2 == 0);
        if (twinFirst)
            gotTwin = decodeCopy(*twin, L[call].raw);
        std::vector<std::shared_ptr<ASAM::CMP::Packet>> got;
        if (L[call].failAlloc >= 0)
        {
            // only the library's own allocations are counted: the frame is copied beforehand
            Bytes copy = L[call].raw;
            bool threw = false;
            {
                vf::fp::FailAt f(L[call].failAlloc);
                try
                {
                    got = dec.decode(copy.data(), copy.size());
                }
                catch (const std::bad_alloc&)
                {
                    threw = true;
                }
            }
            c.count(threw ? "decode_calls_cut_short_by_an_allocation_failure" : "allocation_failpoints_beyond_the_calls_last_allocation");
            if (threw)
            {
                got.clear();
                if (L[call].retry)
                {
                    got = decodeCopy(dec, L[call].raw);
                    c.count("frames_offered_again_after_an_allocation_failure");
                }
            }
        }
        else
            got = decodeCopy(dec, L[call].raw);
        if (twin && !twinFirst)
            gotTwin = decodeCopy(*twin, L[call].raw);
        if (twin)
        {
            bool same = gotTwin.size() == got.size();
            for (size_t i = 0; same && i < got.size(); ++i)
                same = got[i] && gotTwin[i] && snapPacket(*got[i]) == snapPacket(*gotTwin[i]);
            if (!same)
            {
                snprintf(buf, sizeof buf, "call %zu: a copy of the decoder taken at call %zu and fed the same frames delivers %zu packets (or other packets), the original %zu", call, twinAt,
                         gotTwin.size(), got.size());
                c.violation("C06:copy-of-decoder-delivers-differently", buf, "faults=" + faultLog + " stream=" + describeFrames(fed, call, 300));
            }
        }
        ++c.evaluations;
        auto input = [&]() { return "faults=" + faultLog + " stream=" + describeFrames(fed, call, 300); };
        std::vector<int> deliveredIdx;
        for (auto& p : got)
        {
            if (!p)
            {
                c.violation("C06:null-packet", "null packet", input());
                continue;
            }
            PacketSnap s = snapPacket(*p);
            c.count("deliveries");
            int mi = -1;
            if (s.payload.bytes.size() >= 4)
            {
                auto it = byId.find(wire::get32(s.payload.bytes.data()));
                if (it != byId.end())
                    mi = it->second;
            }
            if (mi < 0)
            {
                c.violation("C06:delivered-packet-matches-no-sent-message", "call " + std::to_string(call) + ": delivered " + s.str(), input());
                continue;
            }
            deliveredIdx.push_back(mi);
            const Sent& m = S.msgs[static_cast<size_t>(mi)];
            if (m.invalid)
            {
                c.count("invalid_messages_delivered_anyway");
                continue;
            }
            const auto& ep = S.eps[static_cast<size_t>(m.endpoint)];
            bool same = s.payload.bytes == m.data && s.ts == m.ts && (s.flags & ~wire::CF_SEG) == m.flags && s.payload.rawType == m.ptype &&
                        s.device == ep.first && s.stream == ep.second && s.valid;
            if (!msgCorrupted[static_cast<size_t>(mi)])
            {
                same = same && s.version == m.ver && s.payload.msgType == m.mt;
                if (m.mt == wire::MT_DATA)
                    same = same && s.interfaceId == m.idWord;
                else
                    same = same && s.vendorId == static_cast<uint16_t>(m.idWord & 0xFFFF);
            }
            if (!same)
            {
                size_t k = 0;
                while (k < s.payload.bytes.size() && k < m.data.size() && s.payload.bytes[k] == m.data[k])
                    ++k;
                snprintf(buf, sizeof buf, "call %zu: packet carrying the id of sent message %d (%zu bytes, %s) is not identical to it (payload %zu bytes, first difference at %zu)",
                         call, mi, m.data.size(), m.segmented ? "segmented" : "unsegmented", s.payload.bytes.size(), k);
                c.violation(s.payload.bytes != m.data ? "C06:corrupted-payload-delivered" : "C06:delivered-header-differs-from-sent", std::string(buf) + "; delivered " + s.str(), input());
            }
        }
        for (int mi : deliveredIdx)
            deliveredAt[mi].push_back(call);
    }
    // O2 recovery: every message that arrived complete, in order and uninterrupted on its endpoint is delivered (at the
    // call of its last frame or later; the exact moment is C05's business)
    for (auto& md : mustDeliver)
        for (int mi : md.second)
        {
            bool ok = false;
            auto it = deliveredAt.find(mi);
            if (it != deliveredAt.end())
                for (size_t at : it->second)
                    if (at >= md.first)
                        ok = true;
            const Sent& m = S.msgs[static_cast<size_t>(mi)];
            if (!ok)
            {
                snprintf(buf, sizeof buf, "%s message %d arrived complete, in order and uninterrupted on its endpoint (last frame at call %zu) but was not delivered", m.segmented ? "segmented" : "unsegmented", mi, md.first);
                c.violation(m.segmented ? "C06:no-recovery-complete-message-not-delivered" : "C06:unsegmented-message-not-delivered", buf, "faults=" + faultLog + " stream=" + describeFrames(fed, fed.size() - 1, 300));
            }
            else
                c.count(m.segmented ? "recovered_segmented_deliveries" : "required_unsegmented_deliveries");
        }
}

inline Fault genFault(Rng& r, size_t n)
{
    Fault f;
    f.kind = static_cast<int>(r.below(F_KINDS));
    f.pos = r.below(n ? n : 1);
    f.dist = r.range(1, 3);
    return f;
}

// deterministic: canonical stream j (16 of them, <= 12 frames), first fault a (kind x position), then every second fault
inline void pairSweep(Ctx& c, long idx)
{
    long j = idx / 61;
    long a = idx % 61;  // 60 = no first fault
    Rng gr = c.fixedRng(j, 11);
    StreamSet S = genStreams(gr, 1 + static_cast<size_t>(j % 3), 8 + static_cast<size_t>(j % 4));
    while (S.frames.size() > 12)
    {
        // regenerate with fewer frames (a segmented message may overshoot the target)
        S = genStreams(gr, 1 + static_cast<size_t>(j % 3), 7);
    }
    for (long b = 0; b <= 60; ++b)
    {
        std::vector<Fault> faults;
        if (a < 60)
            faults.push_back({static_cast<int>(a / 12), static_cast<size_t>(a % 12), 1 + static_cast<size_t>(a % 3)});
        if (b < 60)
            faults.push_back({static_cast<int>(b / 12), static_cast<size_t>(b % 12), 1 + static_cast<size_t>(b % 2)});
        if (a == 60 && b < 60)
            continue;  // single faults are covered by (a, none)
        Rng r = c.fixedRng(idx * 64 + b, 12);
        std::string log;
        uint64_t sig;
        bool hit;
        auto L = applyFaults(S, faults, r, log, sig, hit);
        runFaulted(c, S, L, log);
        if (hit)
            c.sig(mix64(sig, static_cast<uint64_t>(j)));
        c.count("fault_sequences");
        c.count(faults.size() == 2 ? "exhaustive_fault_pairs" : (faults.size() == 1 ? "exhaustive_single_faults" : "unfaulted_streams"));
    }
}

inline void randomCase(Ctx& c, long idx)
{
    Rng r = c.caseRng(idx);
    StreamSet S = genStreams(r, r.range(1, 3), r.range(6, 60));
    std::vector<Fault> faults;
    size_t nf = r.range(1, 6);
    for (size_t i = 0; i < nf; ++i)
        faults.push_back(genFault(r, S.frames.size()));
    // faults are often aimed at the same neighbourhood
    if (r.chance(1, 2))
        for (size_t i = 1; i < faults.size(); ++i)
            faults[i].pos = faults[0].pos + r.below(4);
    // one stream in five: decode calls cut short by an allocation failure (applied last, so that they sit on final positions)
    if (r.chance(1, 5))
        for (size_t i = 0, n = r.range(1, 4); i < n; ++i)
            faults.push_back({F_ALLOC, r.below(S.frames.size()), r.below(16)});
    std::string log;
    uint64_t sig;
    bool hit;
    auto L = applyFaults(S, faults, r, log, sig, hit);
    runFaulted(c, S, L, log);
    if (hit)
        c.sig(sig);
    c.count("fault_sequences");
    for (auto& f : faults)
        c.feature("c06_fault_kinds", faultName(f.kind));
    c.sample("endpoints=" + std::to_string(S.eps.size()) + " frames=" + std::to_string(S.frames.size()) + " faults=" + log, 4);
}

// lengths of loss bursts / displacement distances: small ones, and values around the powers of two where a narrow
// counter-distance type would wrap (255, 256, 257, 511, 512, 513, 768, 1024)
inline size_t burstLength(Rng& r)
{
    static const size_t v[] = {2, 3, 4, 7, 8, 15, 16, 31, 32, 63, 64, 127, 128, 129, 254, 255, 256, 257, 258, 511, 512, 513, 767, 768, 769, 1023, 1024, 1025};
    return r.chance(1, 4) ? r.range(2, 1100) : v[r.below(sizeof v / sizeof v[0])];
}

// long streams (300..1400 frames) of one or two endpoints, hit by a burst loss / far displacement plus a few single faults
inline void burstCase(Ctx& c, long idx, bool deterministic)
{
    Rng r = deterministic ? c.fixedRng(idx, 14) : c.caseRng(idx, 14);
    StreamSet S = genStreams(r, r.range(1, 2), r.range(300, 1400));
    std::vector<Fault> faults;
    Fault b;
    b.kind = r.chance(1, 4) ? F_DISPLACE : F_BURST_DROP;
    b.dist = burstLength(r);
    if (deterministic)
    {
        static const size_t v[] = {255, 256, 257, 511, 512, 513, 768, 1024, 128, 64};
        b.kind = (idx % 5 == 4) ? F_DISPLACE : F_BURST_DROP;
        b.dist = v[idx % 10];
    }
    // aim the burst so that it starts inside a segmented message (after a first or middle segment)
    size_t start = r.below(S.frames.size() > b.dist + 2 ? S.frames.size() - b.dist - 2 : 1);
    for (size_t k = 0; k < 40 && start + 1 < S.frames.size(); ++k, ++start)
        if (S.frames[start].role == 1 || S.frames[start].role == 2)
        {
            ++start;
            break;
        }
    b.pos = start;
    faults.push_back(b);
    size_t extra = r.below(3);
    for (size_t i = 0; i < extra; ++i)
        faults.push_back(genFault(r, S.frames.size()));
    std::string log;
    uint64_t sig;
    bool hit;
    auto L = applyFaults(S, faults, r, log, sig, hit);
    runFaulted(c, S, L, log);
    c.sig(mix64(sig, mix64(0xb0257, b.dist)));
    c.count("fault_sequences");
    c.count("burst_or_displacement_cases");
    c.feature("c06_burst_lengths", std::to_string(b.dist > 1100 ? 1100 : b.dist));
    if (idx % 50 == 0)
        c.sample("long stream: frames=" + std::to_string(S.frames.size()) + " faults=" + log, 5);
}

// deterministic: canonical stream j (the 16 of the pair sweep): at every frame position every allocation of that decode call fails
// in turn (numbers 0..7, which is more than any call on these streams makes), with and without the frame being offered again,
// alone and behind one ordinary fault
inline void allocSweep(Ctx& c, long j)
{
    Rng gr = c.fixedRng(j, 11);
    StreamSet S = genStreams(gr, 1 + static_cast<size_t>(j % 3), 8 + static_cast<size_t>(j % 4));
    while (S.frames.size() > 12)
        S = genStreams(gr, 1 + static_cast<size_t>(j % 3), 7);
    for (size_t pos = 0; pos < S.frames.size(); ++pos)
        for (size_t d = 0; d < 16; ++d)
            for (int withOther = 0; withOther < 2; ++withOther)
            {
                std::vector<Fault> faults;
                if (withOther)
                    faults.push_back({static_cast<int>((pos + d) % F_KINDS), (pos + 1 + d) % S.frames.size(), 1});
                faults.push_back({F_ALLOC, pos, d});
                Rng r = c.fixedRng(j * 4096 + static_cast<long>(pos * 32 + d * 2) + withOther, 13);
                std::string log;
                uint64_t sig;
                bool hit;
                auto L = applyFaults(S, faults, r, log, sig, hit);
                runFaulted(c, S, L, log);
                if (hit)
                    c.sig(mix64(sig, static_cast<uint64_t>(j) + 0xa110c));
                c.count("fault_sequences");
                c.count("exhaustive_allocation_failure_points");
            }
}

// deterministic, lean: a crowd of endpoints whose messages lost their tails (first segments only, never completed) is in the
// decoder's table while a victim endpoint sends complete, in-order messages whose consecutive segments are separated by hundreds
// to thousands of frames of other endpoints. "The decoder recovers on its own": every victim message must be delivered, intact.
// (House-keeping that drops reassemblies by age or by table size hits exactly this traffic.)
inline void crowdCase(Ctx& c, long j)
{
    static const size_t crowds[] = {70, 300, 1100, 5000};
    static const size_t gaps[] = {300, 1100, 1500, 5000};
    const size_t crowd = crowds[j % 4], gap = gaps[(j / 4) % 4];
    Rng r = c.fixedRng(j, 15);
    ASAM::CMP::Decoder dec;
    c.note("crowd of " + std::to_string(crowd) + " endpoints with unfinished messages; victim messages of 4 segments with " + std::to_string(gap) + " foreign frames between consecutive segments");
    auto first = [&](uint16_t dev, uint8_t stream, uint16_t seq) {
        GMsg m;
        m.ts = seq;
        m.idWord = dev;
        m.ptype = 0x41;
        m.flags = wire::SEG_FIRST;
        m.payload = r.bytes(12);
        return buildFrame(1, dev, wire::MT_DATA, stream, seq, {m});
    };
    for (size_t i = 0; i < crowd; ++i)
    {
        Bytes f = first(static_cast<uint16_t>(0x1000 + i / 200), static_cast<uint8_t>(i % 200), static_cast<uint16_t>(i));
        if (!dec.decode(f.data(), f.size()).empty())
            c.violation("C06:delivered-packet-matches-no-sent-message", "a first segment delivered a packet", "crowd history");
    }
    GMsg u;
    u.ts = 3;
    u.idWord = 4;
    u.ptype = 0x42;
    u.payload = r.bytes(5);
    Bytes foreign = buildFrame(1, 0x0FFF, wire::MT_DATA, 250, 0, {u});
    uint16_t fseq = 0, vseq = 65530;
    for (int msg = 0; msg < 6; ++msg)
    {
        Bytes data = content(static_cast<uint32_t>(900000 + j * 16 + msg), 40);
        for (int sgi = 0; sgi < 4; ++sgi)
        {
            GMsg m;
            m.ts = 0x0102030405060708ULL + static_cast<uint64_t>(msg);
            m.idWord = 77;
            m.ptype = 0x43;
            m.flags = static_cast<uint8_t>(sgi == 0 ? wire::SEG_FIRST : (sgi == 3 ? wire::SEG_LAST : wire::SEG_MID));
            m.payload.assign(data.begin() + sgi * 10, data.begin() + (sgi + 1) * 10);
            Bytes f = buildFrame(1, 0x0ABC, wire::MT_DATA, 7, vseq++, {m});
            auto got = dec.decode(f.data(), f.size());
            ++c.evaluations;
            if (sgi < 3 && !got.empty())
                c.violation("C06:delivered-packet-matches-no-sent-message", "an unfinished victim message delivered a packet", "crowd history");
            if (sgi == 3)
            {
                if (got.size() != 1 || !got[0])
                    c.violation("C06:no-recovery-complete-message-not-delivered", "victim message " + std::to_string(msg) + " (4 segments, complete, in order, uninterrupted on its endpoint; " + std::to_string(crowd) +
                                    " other endpoints hold unfinished messages, " + std::to_string(gap) + " foreign frames between its segments) was not delivered", "crowd history");
                else if (snapPacket(*got[0]).payload.bytes != data)
                    c.violation("C06:corrupted-payload-delivered", "victim message " + std::to_string(msg) + " delivered with other bytes than sent", "crowd history");
                else
                    c.count("recovered_segmented_deliveries");
                break;
            }
            for (size_t k = 0; k < gap; ++k)
            {
                wire::set16(foreign.data() + 6, fseq++);
                if (dec.decode(foreign.data(), foreign.size()).size() != 1)
                    c.violation("C06:unsegmented-message-not-delivered", "a foreign unsegmented frame did not yield its packet", "crowd history");
            }
        }
    }
    c.count("crowd_histories");
    c.sig(mix64(0xc40fd, static_cast<uint64_t>(j)));
}

constexpr long kPairCases = 16 * 61;
constexpr long kBurstDet = 200;
constexpr long kAllocDet = 16;
constexpr long kCrowd = 16;
inline long count(Ctx& c)
{
    return kPairCases + kBurstDet + kAllocDet + kCrowd + (c.thorough() ? 2400000 : 16000);
}
inline void run(Ctx& c, long idx)
{
    if (idx < kPairCases)
        return pairSweep(c, idx);
    if (idx < kPairCases + kBurstDet)
        return burstCase(c, idx - kPairCases, true);
    if (idx < kPairCases + kBurstDet + kAllocDet)
        return allocSweep(c, idx - kPairCases - kBurstDet);
    if (idx < kPairCases + kBurstDet + kAllocDet + kCrowd)
        return crowdCase(c, idx - kPairCases - kBurstDet - kAllocDet);
    if (mix64(static_cast<uint64_t>(idx), 0xb0257) % 16 == 5)  // (by hash, not by idx modulo 16: shards are idx modulo the shard count)
        return burstCase(c, idx, false);
    randomCase(c, idx);
}

}  // namespace c06
}  // namespace vf
