// C14: packets and payloads behave as values (copy / move / assign / equality).
#pragma once
#include <asam_cmp/tecmp_payload.h>
#include <asam_cmp/can_payload_base.h>
#include <asam_cmp/ethernet_payload.h>

#include "driver.h"
#include "gen.h"
#include "snapshot.h"
#include "wire.h"

namespace vf {
namespace c14 {

using ASAM::CMP::Packet;
using ASAM::CMP::Payload;
using ASAM::CMP::PayloadType;
using wire::Bytes;

struct Proto  // recipe for a pool object (so that fresh, independent instances can be made at will)
{
    std::string cls;  // description class for the signature
    bool hasPayload = true;
    int retypeTo = -1;  // >= 0: after the payload (with its bytes) is stored, its type is changed in place to this 32-bit value
    int decoded = 0;    // 1: the packet is built the way the decoder builds it, Packet(messageType, message bytes, size), so that the stored
                        // payload has its concrete class; 2: ... and the application then sets a bus-error flag through the typed class
                        // (CAN / CAN-FD / Ethernet), a state the validators would refuse
    uint8_t mt = 1, pt = 0x20;
    Bytes bytes;
    uint8_t version = 1, stream = 0, flags = 0, seg = 0;
    uint16_t device = 0, seq = 0, vendor = 0;
    uint64_t ts = 0;
    uint32_t ifid = 0;

    Packet make() const
    {
        Packet p;
        if (hasPayload && decoded)
        {
            Bytes msg(16, 0);
            msg[13] = pt;
            wire::set16(msg.data() + 14, static_cast<uint16_t>(bytes.size()));
            msg.insert(msg.end(), bytes.begin(), bytes.end());
            p = Packet(static_cast<ASAM::CMP::CmpHeader::MessageType>(mt), msg.data(), msg.size());
            if (decoded == 2)
            {
                if (pt == wire::PT_ETHERNET)
                    static_cast<ASAM::CMP::EthernetPayload&>(p.getPayload()).setFlag(ASAM::CMP::EthernetPayload::Flags::fcsErr, true);
                else
                    static_cast<ASAM::CMP::CanPayloadBase&>(p.getPayload()).setFlag(ASAM::CMP::CanPayloadBase::Flags::crcErr, true);
            }
        }
        else if (hasPayload)
            p.setPayload(Payload(PayloadType(static_cast<ASAM::CMP::CmpHeader::MessageType>(mt), pt), bytes.data(), bytes.size()));
        if (hasPayload && retypeTo >= 0)
            p.getPayload().setType(PayloadType(static_cast<uint32_t>(retypeTo)));
        p.setVersion(version);
        p.setDeviceId(device);
        p.setStreamId(stream);
        p.setSequenceCounter(seq);
        p.setTimestamp(ts);
        p.setInterfaceId(ifid);
        p.setVendorId(vendor);
        p.setCommonFlags(flags);
        p.setSegmentType(static_cast<ASAM::CMP::MessageHeader::SegmentType>(seg));
        return p;
    }
    bool sameAs(const Proto& o) const
    {
        return hasPayload == o.hasPayload && retypeTo == o.retypeTo && decoded == o.decoded && (!hasPayload || (mt == o.mt && pt == o.pt && bytes == o.bytes)) && version == o.version && stream == o.stream && flags == o.flags && seg == o.seg &&
               device == o.device && seq == o.seq && vendor == o.vendor && ts == o.ts && ifid == o.ifid;
    }
};

inline std::vector<Proto> makePool(Rng& r, bool randomPool)
{
    std::vector<Proto> pool;
    Proto def;
    def.cls = "default-packet";
    def.hasPayload = false;
    pool.push_back(def);
    // zero-length payloads of different types
    for (uint8_t pt : {uint8_t(0x11), uint8_t(0x22)})
    {
        Proto z;
        z.cls = "zero-length-payload";
        z.pt = pt;
        pool.push_back(z);
    }
    {
        Proto z;
        z.cls = "zero-length-status-payload";
        z.mt = 3;
        z.pt = 0x11;
        pool.push_back(z);
    }
    // every payload kind
    for (int k = 0; k < K_COUNT; ++k)
    {
        Proto p;
        p.cls = std::string("kind-") + kindName(k);
        p.mt = kindMsgType(static_cast<Kind>(k), r);
        p.pt = kindPayloadType(static_cast<Kind>(k), r);
        p.bytes = genPayload(static_cast<Kind>(k), kindMinLen(static_cast<Kind>(k)) + r.below(12), r);
        p.version = static_cast<uint8_t>(r.range(1, 255));
        p.device = static_cast<uint16_t>(r.next());
        p.stream = r.byte();
        p.seq = static_cast<uint16_t>(r.next());
        p.ts = r.next();
        p.ifid = static_cast<uint32_t>(r.next());
        p.vendor = static_cast<uint16_t>(r.next());
        p.flags = r.byte();
        p.seg = static_cast<uint8_t>(r.below(4) << 2);
        pool.push_back(p);
    }
    // payloads whose type was changed in place after the bytes were stored: to 'invalid' (0), to a half-zero type, to another kind
    for (int t : {0x0000, 0x0100, 0x0001, 0x0108, 0xFF77})
    {
        Proto p = pool[4 + 4];
        p.cls = "retyped-in-place";
        p.retypeTo = t;
        pool.push_back(p);
    }
    // equal-looking twins and pairs differing in exactly one field
    Proto base = pool[4 + (randomPool ? r.below(K_COUNT) : 4)];
    base.cls = "twin";
    pool.push_back(base);
    pool.push_back(base);
    const char* names[] = {"version", "device", "stream", "seq", "ts", "ifid", "vendor", "flags", "seg", "payload-type", "message-type", "one-payload-byte", "payload-length"};
    for (int f = 0; f < 13; ++f)
    {
        Proto d = base;
        d.cls = std::string("differs-in-") + names[f];
        switch (f)
        {
            case 0: d.version ^= 1; break;
            case 1: d.device ^= 0x100; break;
            case 2: d.stream ^= 0x80; break;
            case 3: d.seq ^= 1; break;
            case 4: d.ts ^= (1ULL << 40); break;
            case 5: d.ifid ^= 0x10000; break;
            case 6: d.vendor ^= 2; break;
            case 7: d.flags ^= 0x10; break;
            case 8: d.seg ^= 0x04; break;
            case 9: d.pt ^= 0x40; break;
            case 10: d.mt = d.mt == 1 ? 3 : 1; break;
            case 11: d.bytes[d.bytes.size() / 2] ^= 0x01; break;
            default: d.bytes.push_back(0x5A); break;
        }
        pool.push_back(d);
    }
    // zero-length twins differing in header only, and default-looking packet with an empty payload
    {
        Proto z = pool[1];
        z.cls = "zero-length-payload-other-header";
        z.ts = 99;
        pool.push_back(z);
    }
    if (randomPool)
        for (int i = 0; i < 10; ++i)
        {
            Proto p = pool[r.below(pool.size())];
            p.cls = "random-variant";
            if (p.hasPayload && !p.bytes.empty() && r.chance(1, 2))
                p.bytes[r.below(p.bytes.size())] ^= static_cast<uint8_t>(1u << r.below(8));
            if (r.chance(1, 2))
                p.flags = r.byte();
            if (r.chance(1, 3))
                p.ts = r.next();
            pool.push_back(p);
        }
    // packets built the way the decoder builds them (the stored payload has its concrete class), untouched and with a bus-error
    // flag set by the application afterwards
    for (Kind k : {K_CAN, K_CANFD, K_ETH, K_LIN})
        for (int mode = 1; mode <= 2; ++mode)
        {
            if (k == K_LIN && mode == 2)
                continue;
            Proto p;
            p.cls = std::string(mode == 1 ? "decoder-built-" : "decoder-built-then-flagged-") + kindName(k);
            p.decoded = mode;
            p.mt = kindMsgType(k, r);
            p.pt = kindPayloadType(k, r);
            p.bytes = genPayload(k, kindMinLen(k) + r.below(12), r);
            p.version = 2;
            p.ts = r.next();
            p.ifid = static_cast<uint32_t>(r.next());
            pool.push_back(p);
        }
    return pool;
}

inline const char* relation(const Proto& a, const Proto& b, bool sameObject)
{
    if (sameObject)
        return "same-object";
    if (a.sameAs(b))
        return "equal-looking";
    if (a.cls.compare(0, 10, "differs-in") == 0 || b.cls.compare(0, 10, "differs-in") == 0)
        return "differs-in-one";
    return "unrelated";
}

struct Run
{
    Ctx& c;
    void fail(const std::string& key, const std::string& d, const Proto& s, const Proto& t)
    {
        c.violation("C14:" + key, d, "source=" + s.cls + snapPacket(s.make(), s.hasPayload).str() + " target=" + t.cls + snapPacket(t.make(), t.hasPayload).str());
    }

    void mutate(Packet& p, bool hasPayload)
    {
        p.setVersion(static_cast<uint8_t>(p.getVersion() + 1));
        p.setTimestamp(p.getTimestamp() ^ 0xFFFF);
        p.setCommonFlags(static_cast<uint8_t>(~p.getCommonFlags()));
        p.setInterfaceId(p.getInterfaceId() + 1);
        if (hasPayload)
        {
            p.getPayload().setRawPayloadType(static_cast<uint8_t>(p.getPayload().getRawPayloadType() ^ 0x55));
            static const uint8_t other[] = {0xDE, 0xAD, 0xBE, 0xEF, 0x01};
            if (p.getPayload().getLength() % 2)
                p.setPayload(Payload(PayloadType(ASAM::CMP::CmpHeader::MessageType::vendor, 0x77), other, sizeof other));
        }
        else
        {
            static const uint8_t other[] = {1, 2, 3};
            p.setPayload(Payload(PayloadType(ASAM::CMP::CmpHeader::MessageType::data, 0x33), other, sizeof other));
        }
    }

    void pair(const Proto& sp, const Proto& tp, int op)
    {
        static const char* opName[] = {"copy-construct", "move-construct", "copy-assign", "move-assign"};
        c.note(std::string(opName[op]) + " source=" + sp.cls + " target=" + tp.cls);
        ++c.evaluations;
        Packet src = sp.make();
        const PacketSnap srcBefore = snapPacket(src, sp.hasPayload);
        const uint8_t* srcPtr = sp.hasPayload ? src.getPayload().getRawPayload() : nullptr;
        bool tgtHasPayload = sp.hasPayload;
        std::unique_ptr<Packet> tgt;
        switch (op)
        {
            case 0: tgt.reset(new Packet(src)); break;
            case 1: tgt.reset(new Packet(std::move(src))); break;
            case 2:
                tgt.reset(new Packet(tp.make()));
                *tgt = src;
                break;
            default:
                tgt.reset(new Packet(tp.make()));
                *tgt = std::move(src);
                break;
        }
        // if the source had a payload the target must have one too: reading it through getPayload() makes UBSan's
        // null check the monitor for a missing payload object
        const bool safeToRead = true;
        PacketSnap after = snapPacket(*tgt, tgtHasPayload);
        if (after != srcBefore)
            fail(std::string(opName[op]) + "-target-differs-from-source", "target after " + after.str() + " source before " + srcBefore.str(), sp, tp);
        if (!sp.hasPayload && (tgt->isValid() || tgt->getPayloadLength() != 0))
            fail(std::string(opName[op]) + "-target-differs-from-source", "source has no payload, target reports isValid()=" + std::to_string(tgt->isValid()) + " length " + std::to_string(tgt->getPayloadLength()), sp, tp);
        if (op == 0 || op == 2)
        {
            // copy leaves the source unchanged and shares nothing
            if (snapPacket(src, sp.hasPayload) != srcBefore)
                fail(std::string(opName[op]) + "-changes-source", "source changed by the copy", sp, tp);
            if (sp.hasPayload && safeToRead && srcBefore.payloadLength > 0 && tgt->getPayload().getRawPayload() == srcPtr)
                fail("copy-shares-payload-storage", "copy and original report the same payload data pointer", sp, tp);
            mutate(*tgt, sp.hasPayload && safeToRead);
            if (snapPacket(src, sp.hasPayload) != srcBefore)
                fail("mutating-copy-changes-original", "original changed when the copy was modified", sp, tp);
            Packet again = sp.make();
            mutate(src, sp.hasPayload);
            (void) again;
        }
        else
        {
            // moved-from source: destructible and assignable
            Packet fresh = tp.make();
            src = fresh;
            PacketSnap s2 = snapPacket(src, tp.hasPayload);
            PacketSnap want = snapPacket(fresh, s2.hasPayload);
            if (s2 != want)
                fail("moved-from-source-not-assignable", "assigning to a moved-from packet gives " + s2.str() + " expected " + want.str(), sp, tp);
        }
        c.sig(mix64(hashStr(sp.cls), mix64(hashStr(tp.cls), static_cast<uint64_t>(op) * 8 + hashStr(relation(sp, tp, false)) % 8)));
        c.feature("c14_relations", std::string(opName[op]) + ":" + relation(sp, tp, false));
    }

    // a handle (reference to the payload) obtained BEFORE the copy was made: writing through it afterwards changes the
    // original only. Copies that share storage lazily (copy-on-write keyed on a later accessor call) fail exactly here.
    void staleHandle(const Proto& sp, const Proto& tp, int op)
    {
        if (!sp.hasPayload)
            return;
        ++c.evaluations;
        Packet src = sp.make();
        ASAM::CMP::Payload& handle = src.getPayload();
        std::unique_ptr<Packet> tgt;
        if (op == 0)
            tgt.reset(new Packet(src));
        else
        {
            tgt.reset(new Packet(tp.make()));
            *tgt = src;
        }
        const Packet& ctgt = *tgt;  // observe the copy through const access only
        const PacketSnap before = snapPacket(ctgt, true);
        handle.setRawPayloadType(static_cast<uint8_t>(handle.getRawPayloadType() ^ 0x3C));
        handle.setMessageType(ASAM::CMP::CmpHeader::MessageType::vendor);
        const PacketSnap after = snapPacket(ctgt, true);
        if (after != before)
            fail("copy-changes-when-original-is-modified-through-earlier-reference",
                 std::string(op == 0 ? "copy-constructed" : "copy-assigned") + " packet changed from " + before.str() + " to " + after.str() + " when the original's payload was modified through a reference taken before the copy", sp, tp);
        // the other direction: a handle into the copy taken right after copying, original observed through const access
        Packet src2 = sp.make();
        Packet cpy(src2);
        ASAM::CMP::Payload& h2 = cpy.getPayload();
        const Packet& csrc2 = src2;
        const PacketSnap b2 = snapPacket(csrc2, true);
        Packet third(cpy);  // a further copy made while a handle into cpy exists
        h2.setRawPayloadType(static_cast<uint8_t>(h2.getRawPayloadType() ^ 0x5A));
        const Packet& cthird = third;
        PacketSnap t3 = snapPacket(cthird, true);
        if (snapPacket(csrc2, true) != b2 || t3 != b2)
            fail("copy-changes-when-original-is-modified-through-earlier-reference", "modifying a copy through a reference changed the original or a further copy of it", sp, tp);
        c.count("stale_handle_checks");
    }

    void selfAssign(const Proto& sp)
    {
        ++c.evaluations;
        Packet p = sp.make();
        PacketSnap before = snapPacket(p, sp.hasPayload);
        if (sp.hasPayload)
        {
            // a packet given its own payload back keeps it
            p.setPayload(p.getPayload());
            if (snapPacket(p, true) != before)
                fail("self-set-payload-changes-object", "p.setPayload(p.getPayload()) changed the packet", sp, sp);
        }
        Packet& alias = p;
        p = alias;
        if (snapPacket(p, sp.hasPayload) != before)
            fail("self-copy-assign-changes-object", "p = p changed the packet", sp, sp);
        p = std::move(alias);
        if (snapPacket(p, sp.hasPayload) != before)
            fail("self-move-assign-changes-object", "p = std::move(p) changed the packet", sp, sp);
        c.feature("c14_relations", "self-assign:same-object");
        c.sig(mix64(hashStr(sp.cls), 0x5e1f));
    }

    void equality(const std::vector<Proto>& pool)
    {
        std::vector<Packet> objs;
        std::vector<PacketSnap> snaps;
        for (auto& p : pool)
        {
            objs.push_back(p.make());
            snaps.push_back(snapPacket(objs.back(), p.hasPayload));
        }
        for (size_t i = 0; i < objs.size(); ++i)
        {
            ++c.evaluations;
            if (!(objs[i] == objs[i]) || (objs[i] != objs[i]))
                fail("equality-not-reflexive", "x == x is false (or x != x is true)", pool[i], pool[i]);
            for (size_t j = 0; j < objs.size(); ++j)
            {
                bool ab = objs[i] == objs[j], ba = objs[j] == objs[i], ne = objs[i] != objs[j];
                ++c.evaluations;
                if (ab != ba)
                    fail("equality-not-symmetric", std::string("a==b is ") + (ab ? "true" : "false") + ", b==a is " + (ba ? "true" : "false"), pool[i], pool[j]);
                if (ne == ab)
                    fail("inequality-is-not-negation-of-equality", "a!=b equals a==b", pool[i], pool[j]);
                if (pool[i].hasPayload && pool[j].hasPayload && !pool[i].bytes.empty() && !pool[j].bytes.empty())
                {
                    bool fieldwise = snaps[i] == snaps[j];
                    if (ab != fieldwise)
                        fail("equality-disagrees-with-fieldwise-comparison", std::string("a==b is ") + (ab ? "true" : "false") + " but the field-by-field comparison says " + (fieldwise ? "equal" : "different") + ": a=" + snaps[i].str() + " b=" + snaps[j].str(), pool[i], pool[j]);
                }
                // an independently built copy of the same recipe
                if (i == j)
                {
                    Packet twin = pool[i].make();
                    if (pool[i].hasPayload && !pool[i].bytes.empty() && !(twin == objs[i]))
                        fail("equality-disagrees-with-fieldwise-comparison", "two packets built from the same recipe compare unequal", pool[i], pool[j]);
                }
            }
        }
        c.count("equality_pairs", objs.size() * objs.size());
        // equality follows in-place edits: an object that has already been compared is edited through a typed setter (the idiom of
        // the repository's example) and must then equal an independently built, never compared object with the same edit,
        // and differ from its unedited twin; copies of it behave the same
        for (size_t i = 0; i < objs.size(); ++i)
        {
            if (!pool[i].hasPayload || pool[i].bytes.empty())
                continue;
            Packet& a = objs[i];               // took part in all the comparisons above
            Packet unedited = pool[i].make();  // never compared
            Packet fresh = pool[i].make();
            const char* what = editInPlace(a);
            editInPlace(fresh);
            ++c.evaluations;
            c.count("equality_after_in_place_edit_checks");
            Packet copyOfA(a);
            Packet assigned;
            assigned = a;
            if (!(a == fresh) || !(fresh == a) || (a != fresh) || !(copyOfA == fresh) || !(assigned == fresh))
                fail("equality-stale-after-in-place-edit", std::string("after ") + what + " on an object that had been compared before, it (or a copy of it) compares unequal to an independently built object with the same content", pool[i], pool[i]);
            if ((a == unedited) || (unedited == a) || !(a != unedited))
                fail("equality-stale-after-in-place-edit", std::string("after ") + what + " the object still compares equal to its unedited twin", pool[i], pool[i]);
            if (snapPacket(a, true) != snapPacket(fresh, true))
                fail("in-place-edit-differs-between-compared-and-fresh-object", what, pool[i], pool[i]);
        }
    }

    // packets whose payloads are longer than the 16-bit wire length can express (the builders admit them): equality must
    // follow the real sizes and every byte - lengths that differ by 65536, lengths that are multiples of 65536, content that
    // differs only behind offset (length mod 65536)
    void bigPayloadEquality(Rng& r)
    {
        struct Big
        {
            size_t n;
            int variant;  // 0 base content, 1 last byte differs, 2 byte at (n mod 65536) + 3 differs
        };
        static const Big specs[] = {{65536, 0}, {65536, 1}, {131072, 0}, {131072, 2}, {65541, 0}, {65541, 1}, {65541, 2}, {70000, 0}, {5, 0}, {0, 0}};
        std::vector<Packet> objs;
        std::vector<Bytes> contents;
        const uint8_t seedByte = r.byte();
        for (auto& sp : specs)
        {
            Bytes b(sp.n);
            for (size_t i = 0; i < sp.n; ++i)
                b[i] = static_cast<uint8_t>(seedByte + i * 7 + (i >> 8));
            if (sp.variant == 1 && sp.n)
                b[sp.n - 1] ^= 0x01;
            if (sp.variant == 2)
                b[std::min(sp.n - 1, sp.n % 65536 + 3)] ^= 0x80;
            Packet p;
            p.setPayload(Payload(PayloadType(PayloadType::ethernet), b.data(), b.size()));
            p.setTimestamp(42);
            objs.push_back(p);
            contents.push_back(std::move(b));
        }
        objs.push_back(Packet());  // no payload at all
        objs.back().setTimestamp(42);
        contents.push_back(Bytes());
        for (size_t i = 0; i < objs.size(); ++i)
            for (size_t j = 0; j < objs.size(); ++j)
            {
                ++c.evaluations;
                const bool eq = objs[i] == objs[j], ne = objs[i] != objs[j], rev = objs[j] == objs[i];
                char buf[200];
                snprintf(buf, sizeof buf, "packets with payloads of %zu and %zu bytes", contents[i].size(), contents[j].size());
                if (eq != rev)
                    c.violation("C14:equality-not-symmetric", buf, buf);
                if (ne == eq)
                    c.violation("C14:inequality-is-not-negation-of-equality", buf, buf);
                // (two empty / absent payloads are outside the statement: "for packets with non-empty payloads")
                if ((!contents[i].empty() || !contents[j].empty()) && eq != (contents[i] == contents[j]))
                    c.violation("C14:equality-disagrees-with-fieldwise-comparison",
                                std::string(buf) + (eq ? " compare equal although their payloads differ" : " compare unequal although their payloads are identical"), buf);
            }
        // a copy of a big packet equals it and owns its bytes
        Packet cpy(objs[3]);
        if (!(cpy == objs[3]) || cpy.getPayload().getLength() != contents[3].size() || memcmp(cpy.getPayload().getRawPayload(), contents[3].data(), contents[3].size()) != 0)
            c.violation("C14:copy-construct-target-differs-from-source", "copy of a packet with a 131072-byte payload", "131072-byte payload");
        c.count("big_payload_equality_pairs", objs.size() * objs.size());
    }

    // one in-place change of the payload content that does not go through setData / setPayload
    static const char* editInPlace(Packet& p)
    {
        using namespace ASAM::CMP;
        Payload& pl = p.getPayload();
        if (pl.isValid() && pl.getLength() >= 42)  // (longer than the fixed part of every typed class)
            switch (pl.getType().getType())
            {
                case PayloadType::can:
                case PayloadType::canFd:
                {
                    auto& t = static_cast<CanPayloadBase&>(pl);
                    t.setId(t.getId() ^ 1u);
                    return "CanPayloadBase::setId";
                }
                case PayloadType::lin:
                {
                    auto& t = static_cast<LinPayload&>(pl);
                    t.setChecksum(static_cast<uint8_t>(t.getChecksum() ^ 1u));
                    return "LinPayload::setChecksum";
                }
                case PayloadType::ethernet:
                {
                    auto& t = static_cast<EthernetPayload&>(pl);
                    t.setFlags(static_cast<uint16_t>(t.getFlags() ^ 0x0080u));
                    return "EthernetPayload::setFlags";
                }
                case PayloadType::analog:
                {
                    auto& t = static_cast<AnalogPayload&>(pl);
                    t.setFlags(static_cast<uint16_t>(t.getFlags() ^ 0x0001u));
                    return "AnalogPayload::setFlags";
                }
                case PayloadType::cmStatMsg:
                {
                    auto& t = static_cast<CaptureModulePayload&>(pl);
                    t.setUptime(t.getUptime() ^ 1u);
                    return "CaptureModulePayload::setUptime";
                }
                case PayloadType::ifStatMsg:
                {
                    auto& t = static_cast<InterfacePayload&>(pl);
                    t.setMsgTotalRx(t.getMsgTotalRx() ^ 1u);
                    return "InterfacePayload::setMsgTotalRx";
                }
                default: break;
            }
        pl.setRawPayloadType(static_cast<uint8_t>(pl.getRawPayloadType() ^ 0x40));
        return "Payload::setRawPayloadType";
    }

    // Payload, typed payloads and TECMP::Payload as values
    void payloads(Rng& r)
    {
        for (int k = 0; k < K_COUNT; ++k)
        {
            Bytes b = genPayload(static_cast<Kind>(k), kindMinLen(static_cast<Kind>(k)) + r.below(10), r);
            PayloadType t(static_cast<ASAM::CMP::CmpHeader::MessageType>(kindMsgType(static_cast<Kind>(k), r)), kindPayloadType(static_cast<Kind>(k), r));
            Payload a(t, b.data(), b.size());
            PayloadSnap sa = snapPayload(a);
            ++c.evaluations;
            Payload cpy(a);
            Payload other(PayloadType(PayloadType::ethernet), b.data(), b.size() / 2);
            other = a;
            Payload moved(std::move(cpy));
            Payload massign(PayloadType(PayloadType::lin), nullptr, 0);
            massign = std::move(other);
            std::string in = std::string("Payload kind ") + kindName(k);
            if (snapPayload(moved) != sa || snapPayload(massign) != sa || snapPayload(a) != sa)
                c.violation("C14:payload-copy-or-move-differs-from-source", in, in);
            if (!(a == a))
                c.violation("C14:payload-equality-not-reflexive", "payload == itself is false", in);
            Payload twin(t, b.data(), b.size());
            if (!(a == twin) || !(twin == a))
                c.violation("C14:payload-equality-disagrees-with-content", "two payloads with equal type and bytes compare unequal", in);
            Bytes b2 = b;
            b2[b2.size() - 1] ^= 0x80;
            Payload diff(t, b2.data(), b2.size());
            if ((a == diff) || (diff == a))
                c.violation("C14:payload-equality-disagrees-with-content", "payloads differing in the last byte compare equal", in);
            {
                // other length (a prefix / an extension by one byte), first byte differs, other type with the same bytes
                Payload prefix(t, b.data(), b.size() - 1);
                Bytes ext = b;
                ext.push_back(0);
                Payload longer(t, ext.data(), ext.size());
                Bytes b3 = b;
                b3[0] ^= 0x01;
                Payload diff0(t, b3.data(), b3.size());
                Payload otherType(PayloadType(static_cast<uint32_t>(t.getType() ^ 0x40u)), b.data(), b.size());
                if ((a == prefix) || (prefix == a) || (a == longer) || (longer == a) || (a == diff0) || (diff0 == a) || (a == otherType) || (otherType == a))
                    c.violation("C14:payload-equality-disagrees-with-content", "payloads that differ in length, first byte or type compare equal", in);
                c.count("payload_equality_discrimination_checks", 4);
            }
            if (a.getRawPayload() == moved.getRawPayload() || a.getRawPayload() == massign.getRawPayload())
                c.violation("C14:copy-shares-payload-storage", "payload copy shares the data pointer", in);
            massign.setRawPayloadType(static_cast<uint8_t>(massign.getRawPayloadType() + 1));
            if (snapPayload(a) != sa)
                c.violation("C14:mutating-copy-changes-original", "payload original changed with its copy", in);
            c.count("payload_value_checks");
        }
        // payloads re-typed in place (incl. to 'invalid' = 0) keep their bytes through every copy / move / assignment
        for (uint32_t t : {0x0000u, 0x0100u, 0x0001u, 0x0302u})
        {
            Bytes b = r.bytes(r.range(1, 40));
            b[0] |= 1;
            Payload a(PayloadType(PayloadType::ethernet), b.data(), b.size());
            a.setType(PayloadType(t));
            PayloadSnap sa = snapPayload(a);
            Payload cpy(a);
            Payload asg(PayloadType(PayloadType::lin), nullptr, 0);
            asg = a;
            Payload mv(std::move(cpy));
            ++c.evaluations;
            if (snapPayload(asg) != sa || snapPayload(mv) != sa || snapPayload(a) != sa || sa.bytes != b)
                c.violation("C14:payload-copy-or-move-differs-from-source", "payload re-typed in place to 0x" + std::to_string(t) + " loses content when copied", "payload bytes " + hex(b, 40));
            c.count("payload_value_checks");
        }
        // PayloadType and TECMP::PayloadType as values: ==, != and the three views of the 32-bit word
        for (int i = 0; i < 200; ++i)
        {
            uint32_t x = static_cast<uint32_t>(r.next()) & (r.chance(1, 2) ? 0xFFFFu : 0xFFFFFFFFu);
            uint32_t y = r.chance(1, 3) ? x : (r.chance(1, 2) ? x ^ (1u << r.below(16)) : static_cast<uint32_t>(r.next()) & 0xFFFFu);
            PayloadType a(x), b(y), a2(a);
            TECMP::PayloadType ta(x), tb(y);
            ++c.evaluations;
            if ((a == b) != (x == y) || (a != b) == (a == b) || !(a == a2) || (b == a) != (a == b))
                c.violation("C14:payload-type-equality-disagrees-with-value", "PayloadType(" + std::to_string(x) + ") versus PayloadType(" + std::to_string(y) + ")", "PayloadType");
            if ((ta == tb) != (x == y) || (ta != tb) == (ta == tb))
                c.violation("C14:payload-type-equality-disagrees-with-value", "TECMP::PayloadType(" + std::to_string(x) + ") versus (" + std::to_string(y) + ")", "TECMP::PayloadType");
            PayloadType viaParts(static_cast<ASAM::CMP::CmpHeader::MessageType>((x >> 8) & 0xFF), static_cast<uint8_t>(x & 0xFF));
            if (viaParts.getType() != (x & 0xFFFF))
                c.violation("C14:payload-type-equality-disagrees-with-value", "PayloadType(messageType, raw) gives another word than PayloadType(word)", "PayloadType");
        }
        // zero-length payloads
        {
            Payload z1(PayloadType(PayloadType::ethernet), nullptr, 0), z2(PayloadType(PayloadType::ethernet), nullptr, 0), z3(PayloadType(PayloadType::lin), nullptr, 0);
            ++c.evaluations;
            if (!(z1 == z1) || (z1 == z2) != (z2 == z1) || (z1 == z3) != (z3 == z1))
                c.violation("C14:payload-equality-not-reflexive", "zero-length payload equality is not reflexive / symmetric", "zero-length payloads");
        }
        // TECMP::Payload
        {
            Bytes b = r.bytes(r.range(1, 30));
            TECMP::Payload a(TECMP::PayloadType(TECMP::PayloadType::can), b.data(), b.size());
            TECMP::Payload cpy(a);
            TECMP::Payload asg;
            asg = a;
            TECMP::Payload mv(std::move(cpy));
            ++c.evaluations;
            auto same = [&](const TECMP::Payload& x) {
                return x.getType() == a.getType() && x.getLength() == b.size() && memcmp(x.getRawPayload(), b.data(), b.size()) == 0;
            };
            if (!same(asg) || !same(mv) || !same(a))
                c.violation("C14:payload-copy-or-move-differs-from-source", "TECMP::Payload", "TECMP::Payload");
            if (!(a == a) || !(a == asg) || !(asg == a))
                c.violation("C14:payload-equality-not-reflexive", "TECMP::Payload equality is not reflexive / disagrees with content", "TECMP::Payload");
            // equality discriminates: other type, other length (a prefix), one differing byte (first / last)
            {
                TECMP::Payload otherType(TECMP::PayloadType(TECMP::PayloadType::lin), b.data(), b.size());
                TECMP::Payload prefix(TECMP::PayloadType(TECMP::PayloadType::can), b.data(), b.size() - 1);
                Bytes b1 = b, b2 = b;
                b1[0] ^= 0x01;
                b2[b2.size() - 1] ^= 0x80;
                TECMP::Payload d1(TECMP::PayloadType(TECMP::PayloadType::can), b1.data(), b1.size()), d2(TECMP::PayloadType(TECMP::PayloadType::can), b2.data(), b2.size());
                if ((a == otherType) || (otherType == a) || (a == prefix) || (prefix == a) || (a == d1) || (d1 == a) || (a == d2) || (d2 == a))
                    c.violation("C14:payload-equality-disagrees-with-content", "TECMP::Payload objects that differ in type, length or one byte compare equal", "TECMP::Payload");
                c.count("payload_equality_discrimination_checks", 4);
            }
            TECMP::Payload z1(TECMP::PayloadType(TECMP::PayloadType::lin), nullptr, 0), z2(TECMP::PayloadType(TECMP::PayloadType::lin), nullptr, 0);
            if (!(z1 == z1) || (z1 == z2) != (z2 == z1))
                c.violation("C14:payload-equality-not-reflexive", "zero-length TECMP::Payload", "TECMP::Payload");
            c.count("payload_value_checks");
        }
    }
};

inline void round(Ctx& c, long idx)
{
    bool randomPool = idx >= 4;
    Rng r = randomPool ? c.caseRng(idx) : c.fixedRng(idx, 14);
    auto pool = makePool(r, randomPool);
    Run run{c};
    for (size_t i = 0; i < pool.size(); ++i)
    {
        run.selfAssign(pool[i]);
        for (size_t j = 0; j < pool.size(); ++j)
        {
            for (int op = 0; op < 4; ++op)
                run.pair(pool[i], pool[j], op);
            run.staleHandle(pool[i], pool[j], 0);
            run.staleHandle(pool[i], pool[j], 2);
        }
    }
    run.equality(pool);
    run.payloads(r);
    if (idx % 4 == 0)
        run.bigPayloadEquality(r);
    if (idx % 4 == 1 && (idx < 1024 || mix64(static_cast<uint64_t>(idx), 0xb16) % 16 == 0))
    {
        // (every fourth of the first 1024 rounds, one in 64 afterwards: these rounds copy megabytes)
        // value semantics do not depend on how large the payload is: a sub-pool of packets with payloads of 1 KiB .. 100 000 bytes
        // (sizes around the powers of two where "large objects are shared / small ones copied" policies switch) goes through
        // every operation pair and the stale-handle checks as well
        static const size_t sizes[] = {1023, 1024, 2047, 2048, 2049, 4096, 6000, 16384, 60000, 65535, 65536, 100000};
        std::vector<Proto> big;
        for (int k = 0; k < 4; ++k)
        {
            Proto p;
            size_t n = sizes[(static_cast<size_t>(idx / 4) * 4 + static_cast<size_t>(k)) % 12];
            p.cls = "large-payload";
            p.mt = (k % 2) ? 3 : 1;
            p.pt = static_cast<uint8_t>(0x60 + k);
            p.bytes = r.bytes(n);
            p.version = static_cast<uint8_t>(1 + k);
            p.ts = r.next();
            p.ifid = static_cast<uint32_t>(r.next());
            p.flags = static_cast<uint8_t>(r.next()) & 0xB3;
            big.push_back(p);
        }
        big.push_back(big[0]);  // an equal-looking twin
        for (size_t i = 0; i < big.size(); ++i)
        {
            run.selfAssign(big[i]);
            for (size_t j = 0; j < big.size(); ++j)
            {
                for (int op = 0; op < 4; ++op)
                    run.pair(big[i], big[j], op);
                run.staleHandle(big[i], big[j], 0);
                run.staleHandle(big[i], big[j], 2);
            }
        }
        c.count("large_payload_sub_pools");
    }
    c.count("rounds");
    c.count("pool_objects", pool.size());
    if (c.samples.size() < 2)
    {
        std::string s = "pool:";
        for (auto& p : pool)
            s += " " + p.cls;
        c.sample(s, 2);
    }
}

inline long count(Ctx& c)
{
    return c.thorough() ? 40000 : 512;
}
inline void run(Ctx& c, long idx)
{
    round(c, idx);
}

}  // namespace c14
}  // namespace vf
