// A deterministic, seeded mixed workload over the whole library (encoder, decoder incl. reassembly and invalid
// payloads, payload builders, TECMP conversion, status tracker). Every output byte / value goes to a Sink.
// Used by C19 (digest per thread under TSan) and C20 (definedness under memcheck, differential heap fill).
#pragma once
#include <type_traits>
#include <forward_list>
#include <functional>
#include <memory>

#include <asam_cmp/decoder.h>
#include <asam_cmp/encoder.h>
#include <asam_cmp/status.h>
#include <asam_cmp/tecmp_decoder.h>

#include "accessors.h"
#include "dec_c05.h"
#include "framegen.h"
#include "gen.h"
#include "wire.h"

namespace vf {
namespace wl {

struct Sink
{
    virtual ~Sink() = default;
    virtual void bytes(const char* what, const uint8_t* p, size_t n) = 0;
    template <typename T>
    void value(const char* what, T v)
    {
        uint64_t x = 0;
        static_assert(sizeof(T) <= 8, "scalar");
        memcpy(&x, &v, sizeof(T));
        bytes(what, reinterpret_cast<const uint8_t*>(&x), sizeof(T));
    }
};

struct DigestSink : Sink
{
    uint64_t h = 1469598103934665603ULL;
    uint64_t count = 0;
    void bytes(const char*, const uint8_t* p, size_t n) override
    {
        h = hashBytes(p, n, h);
        h = (h ^ n) * 1099511628211ULL;
        count += n;
    }
};

// optional hooks around / between library calls (C19: jitter and in-flight accounting). thread local.
struct Hooks
{
    std::function<void()> enter, leave, between;
};
inline Hooks*& hooks()
{
    static thread_local Hooks* h = nullptr;
    return h;
}
// optional allocation failpoint provided by the driver (one that replaces operator new): armAllocationFailure(k) lets the k-th
// allocation from now on fail with std::bad_alloc once; armAllocationFailure(-1) disarms. Null in drivers without one.
inline void (*&armAllocationFailure())(long)
{
    static void (*f)(long) = nullptr;
    return f;
}
struct InLib
{
    InLib()
    {
        if (hooks() && hooks()->enter)
            hooks()->enter();
    }
    ~InLib()
    {
        if (hooks() && hooks()->leave)
            hooks()->leave();
        if (hooks() && hooks()->between)
            hooks()->between();
    }
};

inline void sinkPacket(Sink& s, const ASAM::CMP::Packet& p)
{
    s.value("packet.valid", p.isValid());
    s.value("packet.version", p.getVersion());
    s.value("packet.deviceId", p.getDeviceId());
    s.value("packet.streamId", p.getStreamId());
    s.value("packet.sequenceCounter", p.getSequenceCounter());
    s.value("packet.timestamp", p.getTimestamp());
    s.value("packet.interfaceId", p.getInterfaceId());
    s.value("packet.vendorId", p.getVendorId());
    s.value("packet.commonFlags", p.getCommonFlags());
    s.value("packet.segmentType", static_cast<uint8_t>(p.getSegmentType()));
    s.value("packet.payloadLength", p.getPayloadLength());
    const auto& pl = p.getPayload();
    s.value("payload.type", pl.getType().getType());
    s.value("payload.messageType", static_cast<uint8_t>(pl.getMessageType()));
    s.value("payload.length", pl.getLength());
    if (pl.getLength())
        s.bytes("payload.bytes", pl.getRawPayload(), pl.getLength());
    AccessResult a;
    accessTyped(a, pl);  // typed getters (values derived from the payload bytes)
    s.value("payload.typed-getters-digest", a.digest);
    // the packet serialised again the way the encoder does
    uint8_t hdr[8 + 16];
    p.getRawCmpHeader(hdr);
    p.getRawMessageHeader(hdr + 8);
    s.bytes("packet.rawHeaders", hdr, sizeof hdr);
}

// frames reach the decoder at every alignment (a CMP frame behind a 14-byte Ethernet header is not 8-byte aligned): the frame
// is copied to offset `misalign` of a fresh buffer and decoded from there
struct Misaligned
{
    std::vector<uint8_t> buf;
    const uint8_t* data;
    Misaligned(const uint8_t* p, size_t n, size_t misalign)
        : buf(n + misalign + 1)
    {
        if (n)
            memcpy(buf.data() + misalign, p, n);
        data = buf.data() + misalign;
    }
};

// a copy of the object when its class is copyable (all three are on the pinned tree), a fresh one otherwise - so that a change
// which takes copyability away does not stop the drivers from compiling
template <typename T>
inline T copyOrFresh(const T& x)
{
    if constexpr (std::is_copy_constructible_v<T>)
        return T(x);
    else
        return T();
}
struct State
{
    ASAM::CMP::Encoder enc;
    ASAM::CMP::Decoder dec;
    ASAM::CMP::Status status;
    State() = default;
    State(const State& o)
        : enc(copyOrFresh(o.enc))
#ifndef VF_NO_DECODER_COPY
        , dec(copyOrFresh(o.dec))
#endif
        , status(copyOrFresh(o.status))
    {
    }
    State& operator=(const State&) = delete;
};

inline ASAM::CMP::Packet buildPacket(Rng& r, Kind k, size_t len, uint8_t version)
{
    using namespace ASAM::CMP;
    Packet p;
    uint8_t mt = kindMsgType(k, r), pt = kindPayloadType(k, r);
    wire::Bytes b = genPayload(k, len, r);
    {
        InLib g;
        p.setPayload(Payload(PayloadType(static_cast<CmpHeader::MessageType>(mt), pt), b.data(), b.size()));
    }
    p.setVersion(version);
    p.setTimestamp(r.next());
    p.setInterfaceId(static_cast<uint32_t>(r.next()));
    p.setVendorId(static_cast<uint16_t>(r.next()));
    p.setCommonFlags(static_cast<uint8_t>(r.next()) & 0xB3);
    return p;
}

// G0: encode a batch, emit the frames, decode them again, emit the packets
inline const char* genEncodeDecode(State& st, Rng& r, Sink& s, bool& padded, int& msgClass)
{
    using namespace ASAM::CMP;
    Config cfg;
    cfg.max = r.chance(1, 2) ? r.range(25, 200) : (r.chance(1, 2) ? 1500 : r.range(200, 3000));
    cfg.min = r.chance(1, 2) ? 0 : std::min<size_t>(cfg.max, r.pick<size_t>({60, 64, 25, 100}));
    padded = cfg.min > 0;
    size_t n = r.range(1, 6);
    uint8_t version = static_cast<uint8_t>(r.range(1, 255));
    std::vector<Packet> pkts;
    int typeMode = static_cast<int>(r.below(4));  // 0 data, 1 status, 2 control/vendor/other (id bytes unused), 3 mixed
    msgClass = typeMode;
    for (size_t i = 0; i < n; ++i)
    {
        Kind k;
        if (typeMode == 0)
            k = r.pick<Kind>({K_CAN, K_CANFD, K_LIN, K_ANALOG, K_ETH, K_GEN_DATA});
        else if (typeMode == 1)
            k = r.pick<Kind>({K_CM, K_IF, K_GEN_STATUS});
        else if (typeMode == 2)
            k = r.pick<Kind>({K_CONTROL, K_VENDOR, K_OTHER_MT});
        else
            k = static_cast<Kind>(r.below(K_COUNT));
        pkts.push_back(buildPacket(r, k, genLen(r, cfg.max, 0, false) % 600 + 1, version));
    }
    if (r.chance(1, 4))
    {
        // a packet edited in place through getPayload() (shrinking setData) and then copied, as user code does
        wire::Bytes longer = r.bytes(r.range(100, 400)), final = r.bytes(r.range(0, 60));
        EthernetPayload e;
        Packet p;
        {
            InLib g;
            e.setData(longer.data(), static_cast<uint16_t>(longer.size()));
            p.setPayload(e);
            auto& ep = static_cast<EthernetPayload&>(p.getPayload());
            ep.setData(final.data(), static_cast<uint16_t>(final.size()));
            ep.setFlags(0x0080);
        }
        p.setVersion(version);
        p.setTimestamp(r.next());
        if (typeMode == 0 || typeMode == 3)
            pkts.push_back(p);
    }
    if (r.chance(1, 4))
    {
        InLib g;
        st.enc.setDeviceId(static_cast<uint16_t>(r.next()));
    }
    if (r.chance(1, 4))
    {
        InLib g;
        st.enc.setStreamId(r.byte());
    }
    DataContext ctx;
    ctx.minBytesPerMessage = cfg.min;
    ctx.maxBytesPerMessage = cfg.max;
    std::vector<std::vector<uint8_t>> frames;
    {
        InLib g;
        if (pkts.size() == 1 && r.chance(1, 2))
            frames = st.enc.encode(pkts[0], ctx);
        else
            frames = st.enc.encode(pkts.begin(), pkts.end(), ctx);
    }
    s.value("encode.frameCount", frames.size());
    for (auto& f : frames)
    {
        s.value("frame.size", f.size());
        s.bytes("frame.bytes", f.data(), f.size());
    }
    s.value("encoder.sequenceCounter", st.enc.getSequenceCounter());
    for (auto& f : frames)
    {
        std::vector<std::shared_ptr<Packet>> got;
        {
            Misaligned mf(f.data(), f.size(), r.below(8));
            InLib g;
            got = st.dec.decode(mf.data, f.size());
        }
        for (auto& p : got)
            if (p)
                sinkPacket(s, *p);
    }
    return "encode+decode";
}

// G1: decoder on wire-model frames: aggregated messages incl. inconsistent / bus-error payloads (returned as zeroed copies),
// interleaved reassembly with trailing bytes
inline const char* genDecode(State& st, Rng& r, Sink& s, int& sub)
{
    using namespace ASAM::CMP;
    sub = static_cast<int>(r.below(2));
    std::vector<wire::Bytes> frames;
    if (sub == 0)
    {
        size_t k = r.range(1, 5);
        std::vector<GMsg> ms;
        Kind first = static_cast<Kind>(r.below(K_COUNT));
        uint8_t mt = kindMsgType(first, r);
        for (size_t i = 0; i < k; ++i)
        {
            Kind kd = i == 0 ? first : genKindForType(r, mt);
            uint8_t dummy;
            GMsg m = genMsg(r, kd, r.range(1, 80), dummy);
            if (kindIsTyped(kd) && r.chance(1, 3))
            {
                m.payload = r.chance(1, 2) && (kd == K_CAN || kd == K_CANFD || kd == K_ETH) ? genBusErrorPayload(kd, 30, r) : genInconsistentPayload(kd, r);
                if (m.payload.empty())
                    m.payload.push_back(0);
            }
            ms.push_back(m);
        }
        frames.push_back(buildFrame(static_cast<uint8_t>(r.range(1, 255)), pickDevice(r), mt, pickStream(r), static_cast<uint16_t>(r.next()), ms, wire::Bytes(r.chance(1, 3) ? r.below(20) : 0, 0)));
    }
    else
    {
        c05::History h;
        size_t k = r.range(1, 3);
        for (size_t e = 0; e < k; ++e)
            c05::genStream(r, h, static_cast<int>(e), static_cast<uint16_t>(e + 1), static_cast<uint8_t>(e), r.range(1, 3), static_cast<uint16_t>(r.next()), 60);
        auto order = c05::randomMerge(r, h);
        std::vector<size_t> pos(k, 0);
        for (int ep : order)
            frames.push_back(h.streams[static_cast<size_t>(ep)].frames[pos[static_cast<size_t>(ep)]++].raw);
    }
    for (auto& f : frames)
    {
        std::vector<std::shared_ptr<Packet>> got;
        {
            Misaligned mf(f.data(), f.size(), r.below(8));
            InLib g;
            if (armAllocationFailure() && r.chance(1, 10))
            {
                // the call is cut short by an allocation failure and the frame is offered again: what is then returned is output
                // like any other (every byte determined by the inputs)
                armAllocationFailure()(static_cast<long>(r.below(6)));
                try
                {
                    got = st.dec.decode(mf.data, f.size());
                    armAllocationFailure()(-1);
                }
                catch (const std::bad_alloc&)
                {
                    armAllocationFailure()(-1);
                    got = st.dec.decode(mf.data, f.size());
                }
            }
            else
                got = st.dec.decode(mf.data, f.size());
        }
        s.value("decode.packetCount", got.size());
        for (auto& p : got)
            if (p)
                sinkPacket(s, *p);
    }
    return sub == 0 ? "decode-aggregated" : "decode-reassembly";
}

// G2: payload builders
inline const char* genBuilders(Rng& r, Sink& s, int& cls)
{
    using namespace ASAM::CMP;
    cls = static_cast<int>(r.below(7));
    auto emit = [&](const Payload& p) {
        s.value("built.length", p.getLength());
        s.bytes("built.bytes", p.getRawPayload(), p.getLength());
        AccessResult a;
        accessTyped(a, p);
        s.value("built.typed-getters-digest", a.digest);
    };
    for (int rep = 0; rep < 2; ++rep)
    {
        wire::Bytes d = r.bytes(r.below(80));
        InLib g;
        switch (cls)
        {
            case 0: { CanPayload p; p.setId(static_cast<uint32_t>(r.next()) & 0x1FFFFFFF); p.setData(d.data(), static_cast<uint8_t>(d.size())); p.setCrc(static_cast<uint16_t>(r.next() & 0x7FFF)); p.setData(d.data(), static_cast<uint8_t>(d.size() / 2)); emit(p); break; }
            case 1: { CanFdPayload p; p.setData(d.data(), static_cast<uint8_t>(d.size())); p.setSbc(static_cast<uint8_t>(r.below(8))); p.setSbcParity(r.chance(1, 2)); p.setSbcParity(false); emit(p); break; }
            case 2: { LinPayload p; p.setLinId(static_cast<uint8_t>(r.below(64))); p.setData(d.data(), static_cast<uint8_t>(d.size())); p.setChecksum(r.byte()); emit(p); break; }
            case 3: { EthernetPayload p; p.setData(d.data(), static_cast<uint16_t>(d.size())); p.setFlags(0x80); p.setData(d.data(), static_cast<uint16_t>(d.size() / 3)); emit(p); break; }
            case 4: { AnalogPayload p; p.setSampleInterval(0.5f); p.setData(d.data(), d.size()); p.setSampleDt(AnalogPayload::SampleDt::aInt32); emit(p); break; }
            case 5:
            {
                CaptureModulePayload p;
                p.setData(randomString(r, r.below(40)), randomString(r, r.below(40)), randomString(r, r.below(9)), randomString(r, r.below(9)), r.bytes(r.below(30)));
                p.setUptime(r.next());
                p.setData(randomString(r, r.below(20)), randomString(r, r.below(20)), randomString(r, r.below(9)), randomString(r, r.below(9)), r.bytes(r.below(10)));
                emit(p);
                break;
            }
            default:
            {
                InterfacePayload p;
                wire::Bytes ids = r.bytes(r.range(1, 20)), vd = r.bytes(r.below(20));
                p.setData(ids.data(), static_cast<uint16_t>(ids.size()), vd.data(), static_cast<uint16_t>(vd.size()));
                p.setInterfaceId(static_cast<uint32_t>(r.next()));
                p.setData(ids.data(), static_cast<uint16_t>(r.below(ids.size())), vd.data(), static_cast<uint16_t>(vd.size()));
                emit(p);
                break;
            }
        }
    }
    return "builders";
}

// G3: TECMP conversion (every supported kind; LIN included: its header class has no member initialisers)
inline const char* genTecmp(State& st, Rng& r, Sink& s)
{
    using namespace ASAM::CMP;
    wire::Bytes f = genTecmpFrame(r);
    if (r.chance(1, 6))
        mutateFrame(f, r);
    std::vector<std::shared_ptr<Packet>> got;
    {
        Misaligned mf(f.data(), f.size(), r.below(8));
        InLib g;
        got = r.chance(1, 2) ? TECMP::Decoder::Decode(mf.data, f.size()) : st.dec.decode(mf.data, f.size());
    }
    s.value("tecmp.packetCount", got.size());
    for (auto& p : got)
        if (p)
            sinkPacket(s, *p);
    return "tecmp";
}

// G4: status tracker
inline const char* genStatus(State& st, Rng& r, Sink& s)
{
    using namespace ASAM::CMP;
    for (int i = 0; i < 4; ++i)
    {
        uint16_t dev = static_cast<uint16_t>(r.range(1, 3));
        Packet p;
        if (r.chance(1, 2))
        {
            CaptureModulePayload pl;
            pl.setData("d", std::to_string(r.below(1000)), "h", "s", {});
            p.setPayload(pl);
        }
        else
        {
            InterfacePayload pl;
            pl.setInterfaceId(static_cast<uint32_t>(r.range(1, 3)));
            p.setPayload(pl);
        }
        p.setDeviceId(dev);
        p.setTimestamp(r.next());
        InLib g;
        st.status.update(p);
        if (r.chance(1, 8))
            st.status.removeDeviceById(static_cast<uint16_t>(r.range(1, 3)));
    }
    s.value("status.deviceCount", st.status.getDeviceStatusCount());
    for (size_t i = 0; i < st.status.getDeviceStatusCount(); ++i)
    {
        const auto& d = st.status.getDeviceStatus(i);
        sinkPacket(s, d.getPacket());
        s.value("status.interfaceCount", d.getInterfaceStatusCount());
        for (size_t j = 0; j < d.getInterfaceStatusCount(); ++j)
        {
            s.value("status.interfaceId", d.getInterfaceStatus(j).getInterfaceId());
            sinkPacket(s, d.getInterfaceStatus(j).getPacket());
        }
    }
    return "status";
}

// one workload step; returns a short class label for the evidence (generator, sub-kind, padded?, message type class)
inline std::string step(State& st, Rng& r, Sink& s)
{
    unsigned w = static_cast<unsigned>(r.below(100));
    if (w < 35)
    {
        bool padded;
        int mc;
        genEncodeDecode(st, r, s, padded, mc);
        return std::string("encode+decode:") + (padded ? "padded" : "unpadded") + ":msgclass" + std::to_string(mc);
    }
    if (w < 60)
    {
        int sub;
        return genDecode(st, r, s, sub);
    }
    if (w < 75)
    {
        int cls;
        genBuilders(r, s, cls);
        return "builders:class" + std::to_string(cls);
    }
    if (w < 90)
        return genTecmp(st, r, s);
    return genStatus(st, r, s);
}

// G5: reassembly of long messages (20 000 .. 60 000 bytes in 2..4 segments): large buffers change hands inside the decoder
inline const char* genBigReassembly(State& st, Rng& r, Sink& s)
{
    using namespace ASAM::CMP;
    size_t total = r.range(16384, 60000);
    size_t nseg = r.range(2, 4);
    uint16_t seq = static_cast<uint16_t>(r.next());
    uint16_t dev = static_cast<uint16_t>(r.range(1, 3));
    wire::Bytes data = r.bytes(total);
    size_t off = 0;
    for (size_t i = 0; i < nseg; ++i)
    {
        size_t n = (i + 1 == nseg) ? total - off : total / nseg;
        GMsg m;
        m.ts = 77;
        m.idWord = 5;
        m.ptype = 0x52;
        m.flags = (i == 0 ? wire::SEG_FIRST : (i + 1 == nseg ? wire::SEG_LAST : wire::SEG_MID));
        m.payload.assign(data.begin() + static_cast<long>(off), data.begin() + static_cast<long>(off + n));
        off += n;
        wire::Bytes f = buildFrame(1, dev, wire::MT_DATA, 1, seq++, {m});
        std::vector<std::shared_ptr<Packet>> got;
        {
            Misaligned mf(f.data(), f.size(), r.below(8));
            InLib g;
            got = st.dec.decode(mf.data, f.size());
        }
        for (auto& p : got)
            if (p)
                sinkPacket(s, *p);
    }
    return "big-reassembly";
}

// one workload step; focus < 0: the usual mix, otherwise only generator class `focus` (contention on one code path)
inline std::string step(State& st, Rng& r, Sink& s, int focus)
{
    if (focus < 0)
    {
        if (r.chance(1, 25))
            return genBigReassembly(st, r, s);
        return step(st, r, s);
    }
    switch (focus % 6)
    {
        case 0:
        {
            bool padded;
            int mc;
            genEncodeDecode(st, r, s, padded, mc);
            return "encode+decode";
        }
        case 1:
        {
            int sub;
            return genDecode(st, r, s, sub);
        }
        case 2:
        {
            int cls;
            genBuilders(r, s, cls);
            return "builders";
        }
        case 3: return genTecmp(st, r, s);
        case 4: return genStatus(st, r, s);
        default: return genBigReassembly(st, r, s);
    }
}

}  // namespace wl
}  // namespace vf
