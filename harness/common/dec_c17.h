// C17: the decoder keeps reassembly state only for messages still in progress (hook-based monitor),
// C18: endpoints are isolated from each other (metamorphic projection oracle, no reference model).
#pragma once
#include <map>
#include <set>

#include "dec_c05.h"
#include "dec_common.h"

namespace vf {
namespace c17 {

struct Ep
{
    uint16_t dev;
    uint8_t stream;
    uint16_t seq;
    uint8_t ver = 1, mt = wire::MT_DATA;
};

// letters of the exhaustive alphabet
enum Letter
{
    L_F,     // first segment
    L_M,     // intermediary, correct counter / version / type
    L_L,     // last, correct
    L_U,     // valid unsegmented message
    L_X,     // message with the error-in-payload flag (invalid)
    L_MV,    // intermediary with another version
    L_MSEQ,  // intermediary with a skipped counter
    L_T,     // TECMP frame
    L_R,     // runt (< 8 bytes)
    L_COUNT
};
inline const char* letterName(int l)
{
    static const char* n[] = {"F", "M", "L", "U", "X", "Mv", "Mseq", "T", "R"};
    return n[l];
}

inline Bytes letterFrame(int letter, Ep& e, Rng& r)
{
    GMsg m;
    m.ts = r.next();
    m.idWord = static_cast<uint32_t>(r.next());
    m.ptype = 0x30;
    m.payload = r.bytes(r.range(0, 24));
    m.flags = static_cast<uint8_t>(r.next()) & 0x33;
    Bytes trailing;
    if (r.chance(1, 4))
        trailing = Bytes(r.range(1, 12), 0xE7);
    switch (letter)
    {
        case L_F: m.flags |= wire::SEG_FIRST; return buildFrame(e.ver, e.dev, e.mt, e.stream, e.seq++, {m}, trailing);
        case L_M: m.flags |= wire::SEG_MID; return buildFrame(e.ver, e.dev, e.mt, e.stream, e.seq++, {m}, trailing);
        case L_L: m.flags |= wire::SEG_LAST; return buildFrame(e.ver, e.dev, e.mt, e.stream, e.seq++, {m}, trailing);
        case L_U:
            if (m.payload.empty())
                m.payload.push_back(1);
            return buildFrame(e.ver, e.dev, e.mt, e.stream, e.seq++, {m});
        case L_X:
        {
            // an invalid first message in one of its forms: error flag, payload type 0, a declared length that overruns the frame,
            // or nothing but zero bytes behind the frame header (a padding-only frame: sixteen and more zero bytes read as an
            // all-zero message header)
            switch (r.below(4))
            {
                case 0: m.flags |= wire::CF_ERROR; return buildFrame(e.ver, e.dev, e.mt, e.stream, e.seq++, {m});
                case 1: m.ptype = 0; return buildFrame(e.ver, e.dev, e.mt, e.stream, e.seq++, {m});
                case 2:
                {
                    Bytes f = buildFrame(e.ver, e.dev, e.mt, e.stream, e.seq++, {m});
                    wire::set16(f.data() + wire::kCmpHeader + 14, static_cast<uint16_t>(m.payload.size() + 1 + r.below(300)));
                    return f;
                }
                default: return buildFrame(e.ver, e.dev, e.mt, e.stream, e.seq++, {}, Bytes(r.pick<size_t>({1, 15, 16, 17, 38, 56}), 0x00));
            }
        }
        case L_MV: m.flags |= wire::SEG_MID; return buildFrame(static_cast<uint8_t>(e.ver + 1), e.dev, e.mt, e.stream, e.seq++, {m});
        case L_MSEQ:
        {
            m.flags |= wire::SEG_MID;
            e.seq = static_cast<uint16_t>(e.seq + 1);  // one counter value skipped
            return buildFrame(e.ver, e.dev, e.mt, e.stream, e.seq++, {m});
        }
        case L_T:
            if (r.chance(1, 3))
            {
                // the beginning of a TECMP frame (first byte 0, fewer than the 28 header bytes) whose bytes 2..3 and 5 name THIS
                // endpoint when misread as a capture-module frame header; the rest looks like a small valid message
                Bytes f = buildFrame(0, e.dev, e.mt, e.stream, e.seq, {m});
                f.resize(std::min<size_t>(f.size(), r.range(8, 27)));
                return f;
            }
            return genTecmpFrame(r);
        default: return r.bytes(r.below(8));
    }
}

struct Monitor
{
    Ctx& c;
    ASAM::CMP::Decoder dec;
    RefDecoder ref;
    std::vector<Bytes> fed;
    std::string lastOp;
    size_t hookEvery = 1;  // mass histories (tens of thousands of open endpoints): walk the pending list every n-th frame only

    void feed(const Bytes& f, const std::string& op, bool forceWalk = false)
    {
        fed.push_back(f);
        if (fed.size() > 16)
            Bytes().swap(fed[fed.size() - 17]);  // (only the last frames are ever described)
        lastOp = op;
        c.note("history=" + describeFrames(fed, fed.size() - 1));
        if (fed.size() % (hookEvery > 1 ? 19997 : 17) == 16)
        {
            if (continueOnCopy(dec))
                c.count("decoder_copies");
        }
        auto got = decodeCopy(dec, f);
        bool tecmp = !f.empty() && f[0] == 0;
        auto exp = ref.feed(f);
        ++c.evaluations;
        auto input = [&]() { return "history=" + describeFrames(fed, fed.size() - 1, 300); };
        if (!tecmp && got.size() != exp.size() && c.prop == "C05")
            c.violation("C05:delivery-count-differs-from-model", "frame " + std::to_string(fed.size() - 1), input());
        if (hookEvery > 1 && fed.size() % hookEvery != 0 && !forceWalk)
            return;
        auto pend = dec.verifPendingReassemblies();
        std::set<std::pair<uint16_t, uint8_t>> seen;
        char buf[256];
        uint64_t sig = 0x17;
        for (auto& pe : pend)
        {
            std::pair<uint16_t, uint8_t> key{pe.deviceId, pe.streamId};
            seen.insert(key);
            auto it = ref.open.find(key);
            if (it == ref.open.end())
            {
                snprintf(buf, sizeof buf, "after frame %zu (%s): decoder holds reassembly state (%zu bytes) for device %u stream %u, whose most recent frame left no message in progress",
                         fed.size() - 1, op.c_str(), pe.bufferedBytes, pe.deviceId, pe.streamId);
                c.violation("C17:state-kept-for-endpoint-without-open-message", buf, input());
            }
            else if (pe.bufferedBytes > it->second.segBytes)
            {
                snprintf(buf, sizeof buf, "after frame %zu (%s): %zu bytes buffered for device %u stream %u, only %zu segment bytes (headers + declared payload) were received for the open message",
                         fed.size() - 1, op.c_str(), pe.bufferedBytes, pe.deviceId, pe.streamId, it->second.segBytes);
                c.violation("C17:buffered-bytes-exceed-received-segment-bytes", buf, input());
            }
        }
        for (auto& o : ref.open)
        {
            if (!seen.count(o.first))
            {
                snprintf(buf, sizeof buf, "after frame %zu (%s): device %u stream %u has a message in progress (%zu segments) but the decoder holds no state for it",
                         fed.size() - 1, op.c_str(), o.first.first, o.first.second, o.second.segments);
                c.violation("C17:open-message-has-no-state", buf, input());
            }
            sig = mix64(sig, mix64(static_cast<uint64_t>(o.first.first) * 256 + o.first.second, o.second.segments));
        }
        if (pend.size() != seen.size())
            c.violation("C17:duplicate-pending-entries", "hook reports the same endpoint twice", input());
        c.sig(mix64(sig, hashStr(op)));
        c.count("pending_observations");
        if (ref.open.empty())
            c.count("quiescent_points");
        if (ref.open.size() > c.counters["max_simultaneously_open"])
            c.counters["max_simultaneously_open"] = ref.open.size();
    }
};

// exhaustive: all sequences of length 5 over the 9-letter alphabet on one endpoint (every prefix is checked too)
constexpr long kSeq5 = 9L * 9 * 9 * 9 * 9;
inline void exhaustiveOne(Ctx& c, long j)
{
    Rng r = c.fixedRng(j, 17);
    Monitor m{c};
    // the endpoint's frame header values vary with the word (decorrelated from its letters): starting counters incl. 0 and 1 - what a
    // default-constructed reassembly slot would "expect" next -, message types incl. 0 ('undefined') and 0xFF, versions 1, 2, 255
    static const uint16_t seqs[] = {10, 65533, 1, 0, 65535, 2};
    static const uint8_t mts[] = {wire::MT_DATA, 0, wire::MT_STATUS, 0xFF, wire::MT_DATA};
    static const uint8_t vers[] = {1, 2, 255};
    const uint64_t hp = mix64(static_cast<uint64_t>(j), 0x17e);
    Ep e{1, 0, seqs[hp % 6]};
    e.mt = mts[(hp >> 8) % 5];
    e.ver = vers[(hp >> 16) % 3];
    long x = j;
    std::string word;
    for (int i = 0; i < 5; ++i)
    {
        int l = static_cast<int>(x % 9);
        x /= 9;
        word += letterName(l);
        word += ' ';
        m.feed(letterFrame(l, e, r), letterName(l));
    }
    c.count("exhaustive_words_len5_one_endpoint");
    if (j % 5000 == 0)
        c.sample("exhaustive word: " + word, 3);
}

// exhaustive (thorough): all sequences of length 4 over 9 letters x 2 endpoints
constexpr long kSeq4x2 = 18L * 18 * 18 * 18;
inline void exhaustiveTwo(Ctx& c, long j)
{
    Rng r = c.fixedRng(j, 18);
    Monitor m{c};
    Ep e[2] = {{1, 0, 65534}, {1, 1, 7}};
    long x = j;
    for (int i = 0; i < 4; ++i)
    {
        int sym = static_cast<int>(x % 18);
        x /= 18;
        m.feed(letterFrame(sym % 9, e[sym / 9], r), std::string(letterName(sym % 9)) + (sym / 9 ? "@b" : "@a"));
    }
    c.count("exhaustive_words_len4_two_endpoints");
}

// random histories with scripts and anomalies over 1..6 endpoints
inline void randomHistory(Ctx& c, long idx)
{
    Rng r = c.caseRng(idx);
    Monitor m{c};
    size_t k = r.range(1, 6);
    std::vector<Ep> eps;
    for (size_t i = 0; i < k; ++i)
    {
        Ep e{pickDevice(r), pickStream(r), r.chance(1, 3) ? static_cast<uint16_t>(r.range(65500, 65535)) : static_cast<uint16_t>(r.next())};
        if (idx % 4 == 3)
        {
            e.dev = static_cast<uint16_t>(r.next());
            e.stream = r.byte();
            if (i >= 1 && idx % 8 == 7)
            {
                // the previous endpoint's decimal alias (digits of both ids written one after the other coincide)
                auto pr = decimalAliasPair(r);
                eps.back().dev = pr.first.first;
                eps.back().stream = pr.first.second;
                e.dev = pr.second.first;
                e.stream = pr.second.second;
            }
        }
        e.ver = static_cast<uint8_t>(r.range(1, 3));
        e.mt = r.chance(1, 4) ? wire::MT_STATUS : wire::MT_DATA;
        if (r.chance(1, 6))
            e.mt = r.pick<uint8_t>({0, 0, 0xFF, wire::MT_CONTROL, wire::MT_VENDOR});
        if (r.chance(1, 6))
            e.seq = r.pick<uint16_t>({0, 1, 2});
        eps.push_back(e);
    }
    std::vector<int> remaining(k, 0);  // segments still to send for the script in progress
    size_t n = r.range(10, c.thorough() ? 80 : 40);
    for (size_t i = 0; i < n; ++i)
    {
        size_t ei = r.below(k);
        Ep& e = eps[ei];
        unsigned w = static_cast<unsigned>(r.below(100));
        int letter;
        if (remaining[ei] > 0 && w < 70)
        {
            if (w < 5)
                letter = L_MV;
            else if (w < 10)
                letter = L_MSEQ;
            else
                letter = (--remaining[ei] == 0) ? L_L : L_M;
            if (letter == L_MV || letter == L_MSEQ)
                remaining[ei] = 0;
        }
        else if (w < 45)
        {
            letter = L_F;
            remaining[ei] = static_cast<int>(r.range(1, 5));
        }
        else if (w < 70)
        {
            letter = L_U;
            remaining[ei] = 0;
        }
        else if (w < 78)
        {
            letter = L_X;
            remaining[ei] = 0;
        }
        else if (w < 86)
        {
            letter = r.chance(1, 2) ? L_M : L_L;  // orphan
            remaining[ei] = 0;
        }
        else if (w < 93)
            letter = L_T;
        else
            letter = L_R;
        Bytes f = letterFrame(letter, e, r);
        if (letter == L_U && r.chance(1, 3))
        {
            // unsegmented frame with several messages, possibly followed by a first segment in the same frame
            GMsg a, b;
            a.ptype = b.ptype = 0x31;
            a.payload = r.bytes(r.range(1, 10));
            b.payload = r.bytes(r.range(1, 10));
            if (r.chance(1, 2))
            {
                b.flags = wire::SEG_FIRST;
                remaining[ei] = static_cast<int>(r.range(1, 3));
            }
            f = buildFrame(e.ver, e.dev, e.mt, e.stream, static_cast<uint16_t>(e.seq - 1), {a, b});
        }
        m.feed(f, letterName(letter));
    }
    c.count("histories");
}

// deterministic: thousands of endpoints with a reassembly open at the same time (the table rehashes several times while
// entries exist), completed / aborted in another order; every step is compared with the model
inline void manyOpen(Ctx& c, long j)
{
    Rng r = c.fixedRng(j, 33);
    Monitor m{c};
    // j == 2: 70 000 endpoints (more than a 16-bit count of table entries; all 256 streams of 274 devices spread over the id
    // space); the pending list is walked every 4999th frame and at the turning points
    const size_t n = j == 0 ? 300 : (j == 1 ? 1500 : 70000);
    if (j == 2)
        m.hookEvery = 4999;
    std::vector<Ep> eps;
    for (size_t i = 0; i < n; ++i)
        eps.push_back(j == 2 ? Ep{static_cast<uint16_t>((i / 256) * 239 + 5), static_cast<uint8_t>(i % 256), static_cast<uint16_t>(r.next())}
                             : Ep{static_cast<uint16_t>(j == 0 ? i : i * 41), static_cast<uint8_t>(i % 251), static_cast<uint16_t>(r.next())});
    for (size_t i = 0; i < n; ++i)
        m.feed(letterFrame(L_F, eps[i], r), "F", i + 1 == n);
    // a middle segment for every third, then finish all in a stride order
    for (size_t i = 0; i < n; i += 3)
        m.feed(letterFrame(L_M, eps[i], r), "M", i + 3 >= n);
    for (size_t k = 0; k < n; ++k)
    {
        size_t i = (k * 7919) % n;
        int letter = (k % 5 == 0) ? L_U : ((k % 7 == 0) ? L_X : L_L);
        m.feed(letterFrame(letter, eps[i], r), letterName(letter), k + 1 == n);
    }
    c.count(j == 2 ? "histories_with_70000_open_endpoints" : "histories_with_hundreds_of_open_endpoints");
}

// deterministic: hundreds of megabytes of SUPERSEDED reassemblies on one decoder: two endpoints keep starting 60 000-byte messages
// that a new first segment replaces before they complete (300 MB quick, 1.2 GB thorough); every 400th message is completed
// instead and must leave nothing behind. Byte budgets that are charged when a message starts and not refunded when it is
// superseded run dry here.
inline void supersededBytes(Ctx& c)
{
    Rng r = c.fixedRng(4, 33);
    Monitor m{c};
    Ep a{0x0201, 1, 100}, b{0x0201, 2, 65000};
    const size_t rounds = c.thorough() ? 20000 : 5000;
    for (size_t i = 0; i < rounds; ++i)
    {
        Ep& e = (i % 2) ? a : b;
        GMsg f;
        f.ts = i;
        f.idWord = 1;
        f.ptype = 0x30;
        f.flags = wire::SEG_FIRST;
        f.payload = Bytes(60000, static_cast<uint8_t>(i));
        m.feed(buildFrame(e.ver, e.dev, e.mt, e.stream, e.seq++, {f}), "F(60000 bytes)");
        if (i % 400 == 399)
            m.feed(letterFrame(L_L, e, r), "L");
    }
    m.feed(letterFrame(L_U, a, r), "U");
    m.feed(letterFrame(L_U, b, r), "U");
    c.count("megabytes_of_superseded_reassemblies", rounds * 60000 / 1000000);
}

inline long count(Ctx& c)
{
    return kSeq5 + 4 + (c.thorough() ? kSeq4x2 + 2000000 : 40000);
}
inline void run(Ctx& c, long idx)
{
    if (idx < kSeq5)
        return exhaustiveOne(c, idx);
    idx -= kSeq5;
    if (idx < 3)
        return manyOpen(c, idx);
    if (idx < 4)
        return supersededBytes(c);
    idx -= 4;
    if (c.thorough())
    {
        if (idx < kSeq4x2)
            return exhaustiveTwo(c, idx);
        idx -= kSeq4x2;
    }
    randomHistory(c, idx + kSeq5 + kSeq4x2 + 4);
}

}  // namespace c17

namespace c18 {

inline bool endpointOf(const Bytes& f, std::pair<uint16_t, uint8_t>& ep)
{
    if (!RefDecoder::isCmp(f.data(), f.size()))
        return false;
    ep = {wire::get16(f.data() + 2), f[5]};
    return true;
}

inline void checkHistory(Ctx& c, const std::vector<Bytes>& H, uint64_t ilHash)
{
    using EpKey = std::pair<uint16_t, uint8_t>;
    ASAM::CMP::Decoder all;
    std::map<EpKey, std::vector<PacketSnap>> fromAll;
    std::map<EpKey, std::vector<size_t>> proj;
    RefDecoder ref;  // only for the non-triviality rule (how many reassemblies are open at once)
    bool multiOpen = false, foreignBetween = false;
    c.note("history=" + describeFrames(H, H.size() - 1));
    for (size_t i = 0; i < H.size(); ++i)
    {
        auto got = decodeCopy(all, H[i]);
        ++c.evaluations;
        EpKey ep;
        if (!endpointOf(H[i], ep))
        {
            if (ref.open.size() >= 1)
                foreignBetween = true;
            continue;  // TECMP frames and runts belong to no projection
        }
        ref.feed(H[i]);
        if (ref.open.size() >= 2)
        {
            multiOpen = true;
            foreignBetween = true;
        }
        proj[ep].push_back(i);
        for (auto& p : got)
            if (p)
                fromAll[ep].push_back(snapPacket(*p));
            else
                c.violation("C18:null-packet", "null packet", "");
    }
    for (auto& pr : proj)
    {
        ASAM::CMP::Decoder solo;
        std::vector<PacketSnap> alone;
        for (size_t i : pr.second)
        {
            auto got = decodeCopy(solo, H[i]);
            ++c.evaluations;
            for (auto& p : got)
                if (p)
                    alone.push_back(snapPacket(*p));
        }
        const auto& mixed = fromAll[pr.first];
        bool same = mixed.size() == alone.size();
        size_t k = 0;
        for (; same && k < mixed.size(); ++k)
            if (mixed[k] != alone[k])
            {
                same = false;
                break;
            }
        if (!same)
        {
            char buf[300];
            snprintf(buf, sizeof buf, "device %u stream %u: %zu packets when all %zu frames are fed to one decoder, %zu packets when only this endpoint's %zu frames are fed; first difference at packet %zu",
                     pr.first.first, pr.first.second, mixed.size(), H.size(), alone.size(), pr.second.size(), k);
            std::string d = buf;
            if (k < mixed.size())
                d += "; mixed run " + mixed[k].str();
            if (k < alone.size())
                d += "; projected run " + alone[k].str();
            c.violation(mixed.size() != alone.size() ? "C18:packet-count-differs-from-projection" : "C18:packet-differs-from-projection", d, "history=" + describeFrames(H, H.size() - 1, 300));
        }
        c.count("projections_compared");
    }
    if (multiOpen && foreignBetween)
        c.sig(ilHash);
    c.count("histories");
}

inline void randomCase(Ctx& c, long idx)
{
    Rng r = c.caseRng(idx);
    // per-endpoint scripts (dense in segment traffic) merged randomly, then hostile frames sprinkled in
    c05::History h;
    size_t k = r.range(2, 5);
    std::vector<std::pair<uint16_t, uint8_t>> eps;
    const bool wideIds = r.chance(1, 4);
    if (wideIds && r.chance(1, 3))
    {
        auto pr = decimalAliasPair(r);
        eps.push_back(pr.first);
        eps.push_back(pr.second);
    }
    while (eps.size() < k)
    {
        std::pair<uint16_t, uint8_t> e{pickDevice(r), pickStream(r)};
        if (wideIds)
        {
            if (!eps.empty() && r.chance(1, 2))
            {
                e = eps[r.below(eps.size())];
                if (r.chance(1, 2))
                    e.first = static_cast<uint16_t>(e.first ^ (1u << r.below(16)));
                else
                {
                    e.first = static_cast<uint16_t>(e.first + 1);
                    e.second = static_cast<uint8_t>(e.second - 1);  // "crossed" ids: lower device, higher stream
                }
            }
            else
                e = {static_cast<uint16_t>(r.next()), r.byte()};
        }
        if (std::find(eps.begin(), eps.end(), e) == eps.end())
            eps.push_back(e);
    }
    for (size_t e = 0; e < k; ++e)
        c05::genStream(r, h, static_cast<int>(e), eps[e].first, eps[e].second, r.range(2, 6), static_cast<uint16_t>(r.next()), 60);
    std::vector<int> order = c05::randomMerge(r, h);
    std::vector<size_t> pos(k, 0);
    std::vector<Bytes> H;
    uint64_t il = 0x18;
    for (int ep : order)
    {
        Bytes f = h.streams[static_cast<size_t>(ep)].frames[pos[static_cast<size_t>(ep)]++].raw;
        unsigned w = static_cast<unsigned>(r.below(100));
        if (w < 25)
            il = mix64(il, hashStr(mutateFrame(f, r)));  // well-formed or not: the oracle needs no reference decision
        else if (w < 30)
        {
            H.push_back(genTecmpFrame(r));
            il = mix64(il, 1001);
        }
        else if (w < 34)
        {
            H.push_back(r.bytes(r.below(8)));
            il = mix64(il, 1002);
        }
        else if (w < 37)
        {
            Bytes t = genTecmpFrame(r);
            mutateFrame(t, r);
            H.push_back(t);
            il = mix64(il, 1003);
        }
        else if (w < 40 && f.size() >= 8)
        {
            // same frame re-addressed to another endpoint (same device other stream / hash neighbour)
            Bytes g = f;
            g[5] = pickStream(r);
            wire::set16(g.data() + 2, pickDevice(r));
            H.push_back(g);
            il = mix64(il, 1004);
        }
        else if (w < 46 && f.size() >= 8)
        {
            // the beginning of a TECMP frame (first byte 0, 8..27 bytes: fewer than the TECMP header) that would name this very
            // endpoint if it were misread as a capture-module frame; it belongs to no endpoint's traffic
            Bytes g = f;
            g[0] = 0;
            g.resize(std::min<size_t>(g.size(), r.range(8, 27)));
            H.push_back(g);
            il = mix64(il, 1005);
            c.count("truncated_tecmp_frames_aimed_at_a_live_endpoint");
        }
        il = mix64(il, static_cast<uint64_t>(ep));
        H.push_back(f);
    }
    checkHistory(c, H, il);
    if (c.samples.size() < 3)
        c.sample("endpoints=" + std::to_string(k) + " frames=" + std::to_string(H.size()) + " first=" + hex(H[0], 60), 3);
}

// deterministic: all 20 merges of two 3-frame endpoint scripts, 200 script pairs
inline void mergeCase(Ctx& c, long j)
{
    Rng r = c.fixedRng(j, 19);
    static const int scripts[][3] = {{c17::L_F, c17::L_M, c17::L_L}, {c17::L_F, c17::L_L, c17::L_U}, {c17::L_F, c17::L_X, c17::L_L}, {c17::L_F, c17::L_F, c17::L_L},
                                     {c17::L_U, c17::L_F, c17::L_L}, {c17::L_F, c17::L_MSEQ, c17::L_L}, {c17::L_F, c17::L_MV, c17::L_L}, {c17::L_M, c17::L_L, c17::L_F},
                                     {c17::L_F, c17::L_T, c17::L_L}, {c17::L_F, c17::L_R, c17::L_L}};
    const int* sa = scripts[j % 10];
    const int* sb = scripts[(j / 10) % 10];
    // endpoint pairs that are hash / field neighbours
    static const std::pair<uint16_t, uint8_t> pa[] = {{1, 0}, {1, 0}, {0, 1}, {0x0100, 0}};
    static const std::pair<uint16_t, uint8_t> pb[] = {{1, 1}, {0x0101, 0}, {1, 0}, {0, 1}};
    c17::Ep a{pa[(j / 100) % 4].first, pa[(j / 100) % 4].second, static_cast<uint16_t>(r.next())};
    c17::Ep b{pb[(j / 100) % 4].first, pb[(j / 100) % 4].second, a.seq};
    std::vector<Bytes> fa, fb;
    for (int i = 0; i < 3; ++i)
    {
        fa.push_back(c17::letterFrame(sa[i], a, r));
        fb.push_back(c17::letterFrame(sb[i], b, r));
    }
    for (int mask = 0; mask < 64; ++mask)
    {
        if (__builtin_popcount(static_cast<unsigned>(mask)) != 3)
            continue;
        std::vector<Bytes> H;
        size_t ia = 0, ib = 0;
        for (int i = 0; i < 6; ++i)
            H.push_back((mask >> i) & 1 ? fa[ia++] : fb[ib++]);
        checkHistory(c, H, mix64(static_cast<uint64_t>(j), static_cast<uint64_t>(mask)));
        c.count("exhaustive_merges");
    }
}

// deterministic: endpoint X has a message open while 70 000 / 140 000 / 270 000 frames of other endpoints pass (more than one
// and more than two full turns of a 16-bit counter of frames), then X continues
inline void longGapCase(Ctx& c, long j)
{
    static const size_t gaps[] = {70000, 140000, 270000};
    size_t gap = gaps[j % 3];
    Rng r = c.fixedRng(j, 35);
    c17::Ep x{0x0102, 3, 500};
    std::vector<Bytes> H;
    H.push_back(c17::letterFrame(c17::L_F, x, r));
    H.push_back(c17::letterFrame(c17::L_M, x, r));
    c17::Ep others[3] = {{0x0102, 4, 0}, {0x0103, 3, 65000}, {7, 0, 1}};
    for (size_t i = 0; i < gap; ++i)
    {
        c17::Ep& o = others[i % 3];
        int letter = (i % 11 == 0) ? c17::L_F : ((i % 11 == 1) ? c17::L_L : c17::L_U);
        if (i % 11 == 1)
            letter = c17::L_L;
        H.push_back(c17::letterFrame(letter, o, r));
        if (i == gap / 2)
            H.push_back(c17::letterFrame(c17::L_M, x, r));  // (in one variant X also continues in the middle)
    }
    if (j >= 3)
        H.erase(H.begin() + static_cast<long>(2 + gap / 2 + 1));  // variant without the middle continuation
    H.push_back(c17::letterFrame(c17::L_L, x, r));
    H.push_back(c17::letterFrame(c17::L_U, x, r));
    // checkHistory notes the whole history on every call; keep that cheap for the long ones
    checkHistory(c, H, mix64(0x10a69a9, static_cast<uint64_t>(j)));
    c.count("histories_with_a_gap_of_more_than_65536_foreign_frames");
}

// deterministic: thousands / tens of thousands of endpoints with a reassembly open at the same moment; every endpoint then gets
// its remaining segments (some an aborting frame instead), in another order. A table that is cleared, capped or evicts entries
// when it grows makes an endpoint's outcome depend on how many OTHER endpoints are in flight.
inline void massOpenCase(Ctx& c, long j)
{
    static const size_t ns[] = {1100, 4200, 70000};
    const size_t n = ns[j % 3];
    Rng r = c.fixedRng(j, 36);
    std::vector<c17::Ep> eps;
    for (size_t i = 0; i < n; ++i)
        eps.push_back(c17::Ep{static_cast<uint16_t>((i / 256) * 239 + 5), static_cast<uint8_t>(i % 256), static_cast<uint16_t>(r.next())});
    std::vector<Bytes> H;
    H.reserve(3 * n);
    for (auto& e : eps)
        H.push_back(c17::letterFrame(c17::L_F, e, r));
    for (size_t i = 0; i < n; i += 2)
        H.push_back(c17::letterFrame(c17::L_M, eps[i], r));
    for (size_t k = 0; k < n; ++k)
    {
        size_t i = (k * 7919) % n;
        int letter = (k % 9 == 0) ? c17::L_U : ((k % 13 == 0) ? c17::L_X : c17::L_L);
        H.push_back(c17::letterFrame(letter, eps[i], r));
        // the endpoints whose message was aborted get a stray continuation / last segment later on, while the number of open
        // reassemblies is still falling through every value (nothing may come of it, in the mixed run as in the projection)
        if (k >= 40 && ((k - 40) % 9 == 0 || (k - 40) % 13 == 0))
        {
            size_t i2 = ((k - 40) * 7919) % n;
            // (in every other case the stray segment carries the counter the aborting frame used, i.e. exactly the value a
            // reassembly that wrongly survived the abort is waiting for)
            if (k % 4 < 2)
                eps[i2].seq = static_cast<uint16_t>(eps[i2].seq - 1);
            H.push_back(c17::letterFrame((k % 2) ? c17::L_L : c17::L_M, eps[i2], r));
            if (k % 2 == 0)
                H.push_back(c17::letterFrame(c17::L_L, eps[i2], r));
        }
    }
    checkHistory(c, H, mix64(0x3a55, static_cast<uint64_t>(j)));
    c.count(n >= 65536 ? "histories_with_70000_endpoints_open_at_once" : "histories_with_thousands_of_endpoints_open_at_once");
}

inline long count(Ctx& c)
{
    return 400 + 6 + 3 + (c.thorough() ? 3000000 : 40000);
}
inline void run(Ctx& c, long idx)
{
    if (idx < 400)
        return mergeCase(c, idx);
    if (idx < 406)
        return longGapCase(c, idx - 400);
    if (idx < 409)
        return massOpenCase(c, idx - 406);
    randomCase(c, idx);
}

}  // namespace c18
}  // namespace vf
