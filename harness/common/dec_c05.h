// C05: segmented messages reassemble correctly under any interleaving.
// Streams are well-formed per endpoint; expectations are computed from the generation script itself
// (which message completes at which frame), the reference model is only used as a cross-check.
#pragma once
#include <numeric>

#include "dec_common.h"

namespace vf {
namespace c05 {

struct SentMsg
{
    uint8_t ver, mt;
    GMsg first;  // header fields of the first segment (ts, idWord, flags w/o seg bits, ptype)
    Bytes data;  // full payload
    bool segmented;
};

struct SFrame
{
    int endpoint;
    Bytes raw;
    std::vector<int> completes;  // indices into msgs of the messages this frame completes, in order
};

struct Stream
{
    uint16_t dev;
    uint8_t stream;
    std::vector<SFrame> frames;
};

struct History
{
    std::vector<SentMsg> msgs;
    std::vector<Stream> streams;
    uint64_t wraps = 0, trailingCases = 0, zeroSegments = 0, trainCases = 0;
};

// payload content unique per message: message id and offset mixed into every byte
inline Bytes uniqueContent(uint32_t msgId, size_t n, bool ethernet)
{
    Bytes b(n);
    for (size_t i = 0; i < n; ++i)
    {
        uint64_t s = (static_cast<uint64_t>(msgId) << 32) | i;
        b[i] = static_cast<uint8_t>(splitmix64(s));
    }
    if (ethernet && n >= wire::kEthHeader)
    {
        wire::set16(b.data(), 0x0080);
        wire::set16(b.data() + 2, 0);
        wire::set16(b.data() + 4, static_cast<uint16_t>(n - wire::kEthHeader));
    }
    return b;
}

// trailing bytes that are themselves a train of well-formed unsegmented messages (stride 16 + payload bytes each): a decoder
// that resumes parsing anywhere behind a segment, at an offset that is a multiple of the stride, finds a valid message there
inline Bytes trailingTrain(Rng& r, size_t stride, size_t count)
{
    Bytes t;
    for (size_t i = 0; i < count; ++i)
    {
        Bytes pl(stride - 16, static_cast<uint8_t>(0xD0 + i % 16));
        wire::appendMessage(t, 0x7777000000000000ULL + i, 0x0BAD0BADu, static_cast<uint8_t>(r.chance(1, 4) ? wire::SEG_FIRST : 0), 0x5F, pl);
    }
    return t;
}

inline Bytes trailingBytes(Rng& r)
{
    // distinctive, non-zero: a single leaked byte is visible
    size_t n = r.pick<size_t>({0, 0, 0, 1, 7, 30});
    Bytes t(n);
    for (size_t i = 0; i < n; ++i)
        t[i] = static_cast<uint8_t>(0xE1 + i % 15);
    return t;
}

inline void genStream(Rng& r, History& h, int ep, uint16_t dev, uint8_t stream, size_t nMsgs, uint16_t startSeq, size_t maxSeg)
{
    Stream st;
    st.dev = dev;
    st.stream = stream;
    uint16_t seq = startSeq;
    for (size_t mi = 0; mi < nMsgs; ++mi)
    {
        uint8_t ver = static_cast<uint8_t>(r.range(1, 4));
        bool status = r.chance(1, 4);
        uint8_t mt = status ? wire::MT_STATUS : (r.chance(1, 10) ? wire::MT_VENDOR : wire::MT_DATA);
        bool eth = (mt == wire::MT_DATA) && r.chance(1, 2);
        GMsg proto;
        proto.ts = r.next();
        proto.idWord = static_cast<uint32_t>(r.next());
        proto.flags = static_cast<uint8_t>(r.next()) & static_cast<uint8_t>(~(wire::CF_ERROR | wire::CF_SEG));
        proto.ptype = eth ? wire::PT_ETHERNET : static_cast<uint8_t>(r.range(0x10, 0xF0));
        uint32_t id = static_cast<uint32_t>(h.msgs.size() + 1) * 2654435761u + static_cast<uint32_t>(ep);
        if (r.chance(1, 4))
        {
            // unsegmented frame with 1..3 messages
            size_t k = r.range(1, 3);
            SFrame f;
            f.endpoint = ep;
            std::vector<GMsg> ms;
            for (size_t i = 0; i < k; ++i)
            {
                SentMsg s;
                s.ver = ver;
                s.mt = mt;
                s.first = proto;
                s.first.ts = r.next();
                size_t n = eth ? r.range(6, 40) : r.range(1, 40);
                s.data = uniqueContent(id + static_cast<uint32_t>(i) * 7919u, n, eth);
                s.segmented = false;
                GMsg m = s.first;
                m.payload = s.data;
                ms.push_back(m);
                f.completes.push_back(static_cast<int>(h.msgs.size()));
                h.msgs.push_back(std::move(s));
            }
            f.raw = buildFrame(ver, dev, mt, stream, seq, ms);
            if (seq == 65535)
                ++h.wraps;
            ++seq;
            st.frames.push_back(std::move(f));
            continue;
        }
        size_t nseg = r.chance(1, 6) ? r.range(2, 12) : r.range(2, 5);
        // in one message out of five the segment sizes are multiples of a stride and the frames carry a train of valid
        // look-alike messages of that stride behind the segment
        const size_t stride = r.chance(1, 5) ? r.pick<size_t>({16, 17, 20, 32}) : 0;
        SentMsg s;
        s.ver = ver;
        s.mt = mt;
        s.first = proto;
        s.segmented = true;
        std::vector<size_t> sizes;
        size_t total = 0;
        for (size_t i = 0; i < nseg; ++i)
        {
            size_t n = r.chance(1, 8) ? 0 : (r.chance(1, 10) ? r.range(0, maxSeg) : r.range(0, std::min<size_t>(maxSeg, 48)));
            if (stride)
                n = stride * r.below(4);
            if (eth && i == 0 && n < wire::kEthHeader)
                n = stride ? stride : wire::kEthHeader + r.below(8);  // keep the Ethernet header inside the first segment for readability only
            if (total + n > 65535)
                n = 65535 - total;  // reassembled totals above 65535 are outside the stated domain; 65535 itself is legal
            if (n == 0)
                ++h.zeroSegments;
            sizes.push_back(n);
            total += n;
        }
        if (total == 0)
        {
            sizes[0] = eth ? 8 : 1;
            total = sizes[0];
        }
        s.data = uniqueContent(id, total, eth);
        int msgIndex = static_cast<int>(h.msgs.size());
        size_t off = 0;
        for (size_t i = 0; i < nseg; ++i)
        {
            GMsg m = proto;
            if (i > 0)
            {
                // later segments may carry other header values: the first segment's must win
                m.ts = r.next();
                m.idWord = static_cast<uint32_t>(r.next());
                m.flags = static_cast<uint8_t>(r.next()) & static_cast<uint8_t>(~(wire::CF_ERROR | wire::CF_SEG));
            }
            m.flags |= (i == 0 ? wire::SEG_FIRST : (i + 1 == nseg ? wire::SEG_LAST : wire::SEG_MID));
            m.payload.assign(s.data.begin() + static_cast<long>(off), s.data.begin() + static_cast<long>(off + sizes[i]));
            off += sizes[i];
            SFrame f;
            f.endpoint = ep;
            Bytes tr = trailingBytes(r);
            if (stride && r.chance(2, 3))
            {
                tr = trailingTrain(r, stride, r.range(1, 14));
                ++h.trainCases;
            }
            if (!tr.empty())
                ++h.trailingCases;
            f.raw = buildFrame(ver, dev, mt, stream, seq, {m}, tr);
            if (seq == 65535)
                ++h.wraps;
            ++seq;
            if (i + 1 == nseg)
                f.completes.push_back(msgIndex);
            st.frames.push_back(std::move(f));
        }
        h.msgs.push_back(std::move(s));
    }
    h.streams.push_back(std::move(st));
}

// feed the frames in the given order (sequence of endpoint indices) and check every call
inline void runInterleaving(Ctx& c, const History& h, const std::vector<int>& order, uint64_t& ilHash, bool& multiOpen)
{
    ASAM::CMP::Decoder dec;
    // a copy of the decoder taken in the middle of the history and used NEXT TO the original from then on (a snapshot that
    // stays in use): both must deliver every message; the copy is destroyed before the end in half of the histories
    std::unique_ptr<ASAM::CMP::Decoder> twin;
    const size_t twinAt = order.size() >= 4 ? (mix64(order.size(), static_cast<uint64_t>(order[0]) + 7) % (order.size() - 1)) : order.size();
    const size_t twinDies = (mix64(order.size(), 99) % 2) ? order.size() : twinAt + 1 + (order.size() - twinAt) / 2;
    RefDecoder ref;
    const size_t copyEvery = order.size() > 5000 ? 9973 : 13;  // (a copy costs as much as the table holds: rarer in the mass histories)
    std::vector<size_t> pos(h.streams.size(), 0);
    std::vector<int> deliveredCount(h.msgs.size(), 0);
    std::vector<Bytes> fed;
    ilHash = 0x77;
    multiOpen = false;
    char buf[256];
    for (size_t step = 0; step < order.size(); ++step)
    {
        int ep = order[step];
        const SFrame& f = h.streams[static_cast<size_t>(ep)].frames[pos[static_cast<size_t>(ep)]++];
        fed.push_back(f.raw);
        ilHash = mix64(ilHash, static_cast<uint64_t>(ep) * 131 + f.completes.size());
        c.note("history=" + describeFrames(fed, fed.size() - 1));
        if (step % copyEvery == copyEvery - 1)
        {
            // continue on a copy of the decoder (copy-construct + copy-assign): pending reassemblies are part of its value
            if (continueOnCopy(dec))
                c.count("decoder_copies");
        }
        if (step == twinAt && order.size() <= 400)
        {
            twin = cloneDecoder(dec);
            if (twin)
                c.count("decoder_twins_used_next_to_the_original");
        }
        if (twin && step == twinDies)
            twin.reset();
        std::vector<std::shared_ptr<ASAM::CMP::Packet>> gotTwin;
        const bool twinFirst = twin && (step % 2 == 0);
        if (twinFirst)
            gotTwin = decodeCopy(*twin, f.raw);
        auto got = decodeCopy(dec, f.raw);
        if (twin && !twinFirst)
            gotTwin = decodeCopy(*twin, f.raw);
        auto model = ref.feed(f.raw);
        ++c.evaluations;
        if (ref.open.size() >= 2)
            multiOpen = true;
        auto input = [&]() { return "history=" + describeFrames(fed, fed.size() - 1, 400); };
        if (twin)
        {
            bool same = gotTwin.size() == f.completes.size();
            for (size_t i = 0; same && i < gotTwin.size(); ++i)
                same = gotTwin[i] && i < got.size() && got[i] && snapPacket(*gotTwin[i]) == snapPacket(*got[i]);
            if (!same && got.size() == f.completes.size())
            {
                snprintf(buf, sizeof buf, "call %zu (endpoint %d): a copy of the decoder taken at call %zu and fed the same frames delivers %zu packets (or other packets), the original %zu",
                         step, ep, twinAt, gotTwin.size(), got.size());
                c.violation("C05:copy-of-decoder-delivers-differently", buf, input());
            }
        }
        if (got.size() != f.completes.size())
        {
            snprintf(buf, sizeof buf, "call %zu (endpoint %d): %zu packets delivered, %zu messages complete at this frame", step, ep, got.size(), f.completes.size());
            c.violation(got.size() < f.completes.size() ? "C05:message-not-delivered" : "C05:unexpected-delivery", buf, input());
        }
        if (model.size() != f.completes.size())
            c.violation("harness:C05-model-disagrees-with-script", "reference model and generation script disagree (harness bug, not a verdict on the library)", input());
        size_t n = std::min(got.size(), f.completes.size());
        for (size_t i = 0; i < n; ++i)
        {
            const SentMsg& s = h.msgs[static_cast<size_t>(f.completes[i])];
            ++deliveredCount[static_cast<size_t>(f.completes[i])];
            if (!got[i])
            {
                c.violation("C05:null-packet", "null packet", input());
                continue;
            }
            RefDelivery e;
            e.device = h.streams[static_cast<size_t>(ep)].dev;
            e.stream = h.streams[static_cast<size_t>(ep)].stream;
            e.version = s.ver;
            e.msgType = s.mt;
            e.hdr = {s.first.ts, s.first.idWord, s.first.flags, s.first.ptype, static_cast<uint16_t>(s.data.size())};
            e.data = s.data;
            e.reassembled = s.segmented;
            std::string detail;
            std::string field = compareDelivery(*got[i], e, EXP_VALID, detail);
            if (!field.empty())
            {
                std::string key = "C05:" + field;
                if (field == "payload-bytes" || field == "payload-length")
                    key = "C05:payload-mismatch";
                c.violation(key, "call " + std::to_string(step) + ": " + (s.segmented ? "reassembled" : "unsegmented") + " message: " + detail, input());
            }
            c.count(s.segmented ? "reassembled_deliveries" : "unsegmented_deliveries");
        }
    }
    for (size_t i = 0; i < deliveredCount.size(); ++i)
        if (deliveredCount[i] != 1 && !c.violCounts.count("C05:message-not-delivered") && !c.violCounts.count("C05:unexpected-delivery"))
            c.violation("C05:not-exactly-once", "message " + std::to_string(i) + " delivered " + std::to_string(deliveredCount[i]) + " times", "");
}

inline std::vector<int> randomMerge(Rng& r, const History& h)
{
    std::vector<size_t> left;
    size_t total = 0;
    for (auto& s : h.streams)
    {
        left.push_back(s.frames.size());
        total += s.frames.size();
    }
    std::vector<int> order;
    // bursty merge: stay on one endpoint for a while or switch
    int cur = -1;
    while (total)
    {
        if (cur < 0 || left[static_cast<size_t>(cur)] == 0 || r.chance(1, 2))
        {
            size_t pick = r.below(total);
            for (size_t e = 0; e < left.size(); ++e)
            {
                if (pick < left[e])
                {
                    cur = static_cast<int>(e);
                    break;
                }
                pick -= left[e];
            }
        }
        order.push_back(cur);
        --left[static_cast<size_t>(cur)];
        --total;
    }
    return order;
}

static const uint16_t kStartSeq[] = {0, 1, 1000, 65533, 65534, 65535};

// deterministic: all 20 merges of 2 endpoints x 3 frames each x all starting-counter pairs
inline void allMerges(Ctx& c, long j)
{
    uint16_t s0 = kStartSeq[j / 6], s1 = kStartSeq[j % 6];
    Rng r = c.fixedRng(j, 9);
    History h;
    // endpoint 0: a 3-segment message; endpoint 1 (same device, other stream): 3-segment message
    auto mk = [&](int ep, uint16_t dev, uint8_t stream, uint16_t start) {
        Stream st;
        st.dev = dev;
        st.stream = stream;
        SentMsg s;
        s.ver = 1;
        s.mt = wire::MT_DATA;
        s.first.ts = r.next();
        s.first.idWord = static_cast<uint32_t>(r.next());
        s.first.flags = wire::CF_INSYNC;
        s.first.ptype = 0x20;
        s.segmented = true;
        s.data = uniqueContent(static_cast<uint32_t>(1000 + ep), 30, false);
        int mi = static_cast<int>(h.msgs.size());
        for (int i = 0; i < 3; ++i)
        {
            GMsg m = s.first;
            m.flags |= (i == 0 ? wire::SEG_FIRST : (i == 2 ? wire::SEG_LAST : wire::SEG_MID));
            m.payload.assign(s.data.begin() + i * 10, s.data.begin() + (i + 1) * 10);
            SFrame f;
            f.endpoint = ep;
            Bytes tr;
            if ((j + i + ep) % 3 == 0)
                tr = {0xEE, 0xEF};
            f.raw = buildFrame(1, dev, wire::MT_DATA, stream, static_cast<uint16_t>(start + i), {m}, tr);
            if (static_cast<uint16_t>(start + i) == 65535)
                ++h.wraps;
            if (i == 2)
                f.completes.push_back(mi);
            st.frames.push_back(std::move(f));
        }
        h.msgs.push_back(std::move(s));
        h.streams.push_back(std::move(st));
    };
    mk(0, 1, 0, s0);
    mk(1, 1, 1, s1);
    // enumerate all merges of 3+3 frames: choose positions of endpoint 0
    for (int mask = 0; mask < 64; ++mask)
    {
        if (__builtin_popcount(static_cast<unsigned>(mask)) != 3)
            continue;
        std::vector<int> order;
        for (int i = 0; i < 6; ++i)
            order.push_back((mask >> i) & 1 ? 0 : 1);
        uint64_t il;
        bool mo;
        runInterleaving(c, h, order, il, mo);
        if (mo)
            c.sig(mix64(il, static_cast<uint64_t>(j)));
        c.count("exhaustive_merges");
    }
    c.count("wrap_crossings", h.wraps * 20);
}

// deterministic: one endpoint's message with a reassembled total at the top of the legal range (65519..65535), in 2..47
// segments, interleaved with small traffic of another endpoint
inline void bigTotals(Ctx& c, long j)
{
    static const size_t totals[] = {65519, 65520, 65521, 65530, 65534, 65535, 65000, 32768};
    size_t total = totals[j % 8];
    int shape = static_cast<int>(j / 8);  // 0: two segments, 1: 45 x ~1456, 2: unequal, trailing bytes
    Rng r = c.fixedRng(j, 10);
    History h;
    Stream st;
    st.dev = 0x0100;
    st.stream = 1;
    SentMsg s;
    s.ver = 2;
    s.mt = wire::MT_DATA;
    s.first.ts = r.next();
    s.first.idWord = static_cast<uint32_t>(r.next());
    s.first.flags = wire::CF_INSYNC;
    s.first.ptype = shape == 2 ? wire::PT_ETHERNET : 0x42;
    s.segmented = true;
    s.data = uniqueContent(static_cast<uint32_t>(7000 + j), total, shape == 2);
    std::vector<size_t> sizes;
    if (shape == 0)
        sizes = {total - 30000, 30000};
    else if (shape == 1)
    {
        size_t left = total;
        while (left > 1456)
        {
            sizes.push_back(1456);
            left -= 1456;
        }
        sizes.push_back(left);
    }
    else if (shape == 3)
        sizes = {10, total - 10};  // one huge LAST segment, followed by trailing bytes (below)
    else if (shape == 4)
        sizes = {1, total - 2, 1};  // one huge MIDDLE segment, followed by trailing bytes (below)
    else
    {
        size_t left = total;
        while (left > 0)
        {
            size_t n = std::min<size_t>(left, r.chance(1, 3) ? r.range(0, 40) : r.range(5000, 20000));
            sizes.push_back(n);
            left -= n;
        }
        if (sizes.size() < 2)
            sizes.push_back(0);
    }
    uint16_t seq = static_cast<uint16_t>(65536 - sizes.size() / 2);  // the run crosses the counter wrap
    size_t off = 0;
    for (size_t i = 0; i < sizes.size(); ++i)
    {
        GMsg m = s.first;
        m.flags |= (i == 0 ? wire::SEG_FIRST : (i + 1 == sizes.size() ? wire::SEG_LAST : wire::SEG_MID));
        m.payload.assign(s.data.begin() + static_cast<long>(off), s.data.begin() + static_cast<long>(off + sizes[i]));
        off += sizes[i];
        SFrame f;
        f.endpoint = 0;
        Bytes tr;
        if (shape == 2 && sizes[i] < 60000 && i % 2)
            tr = Bytes(5, 0xE9);
        if (shape >= 3 && i == 1)
        {
            // declared length + trailing bytes reach 65536 and more: the bytes behind the message header no longer fit 16 bits
            tr = Bytes(std::max<size_t>(100, 65536 - sizes[i] + r.below(50)), 0xE7);
            ++h.trailingCases;
            c.count("segments_whose_length_plus_trailing_bytes_exceed_16_bits");
        }
        f.raw = buildFrame(2, st.dev, wire::MT_DATA, st.stream, seq, {m}, tr);
        if (seq == 65535)
            ++h.wraps;
        ++seq;
        if (i + 1 == sizes.size())
            f.completes.push_back(0);
        st.frames.push_back(std::move(f));
    }
    h.msgs.push_back(std::move(s));
    h.streams.push_back(std::move(st));
    genStream(r, h, 1, 0x0100, 0, 3, 65533, 30);
    std::vector<int> order = randomMerge(r, h);
    uint64_t il;
    bool mo;
    runInterleaving(c, h, order, il, mo);
    c.sig(mix64(il, static_cast<uint64_t>(j) + 0xb16));
    c.count("wrap_crossings", h.wraps);
    c.count("reassembled_totals_at_top_of_range");
}

// deterministic: one message in very many segments (more than 255, more than 4095, 65535 one-byte segments: the
// sequence counter goes once around), another endpoint interleaved
inline void manySegments(Ctx& c, long j)
{
    static const size_t nsegs[] = {300, 5000, 65535};
    static const size_t segLen[] = {10, 13, 1};
    size_t n = nsegs[j % 3], L = segLen[j % 3];
    Rng r = c.fixedRng(j, 12);
    History h;
    Stream st;
    st.dev = 3;
    st.stream = 255;
    SentMsg s;
    s.ver = 1;
    s.mt = wire::MT_DATA;
    s.first.ts = r.next();
    s.first.idWord = static_cast<uint32_t>(r.next());
    s.first.flags = 0;
    s.first.ptype = 0x55;
    s.segmented = true;
    s.data = uniqueContent(static_cast<uint32_t>(9000 + j), n * L, false);
    uint16_t seq = static_cast<uint16_t>(r.next());
    for (size_t i = 0; i < n; ++i)
    {
        GMsg m = s.first;
        m.flags |= (i == 0 ? wire::SEG_FIRST : (i + 1 == n ? wire::SEG_LAST : wire::SEG_MID));
        m.payload.assign(s.data.begin() + static_cast<long>(i * L), s.data.begin() + static_cast<long>((i + 1) * L));
        SFrame f;
        f.endpoint = 0;
        f.raw = buildFrame(1, st.dev, wire::MT_DATA, st.stream, seq, {m});
        if (seq == 65535)
            ++h.wraps;
        ++seq;
        if (i + 1 == n)
            f.completes.push_back(0);
        st.frames.push_back(std::move(f));
    }
    h.msgs.push_back(std::move(s));
    h.streams.push_back(std::move(st));
    genStream(r, h, 1, 3, 0, 4, 65530, 30);
    std::vector<int> order = randomMerge(r, h);
    uint64_t il;
    bool mo;
    runInterleaving(c, h, order, il, mo);
    c.sig(mix64(il, static_cast<uint64_t>(j) + 0x5e6));
    c.count("wrap_crossings", h.wraps);
    c.count("messages_in_hundreds_of_segments");
}

// deterministic: hundreds of endpoints mid-message at the same time (all 256 streams of one device plus streams of further
// devices), round-robin and nested orders, unsegmented traffic of yet another endpoint in between
inline void manyEndpoints(Ctx& c, long j)
{
    Rng r = c.fixedRng(j, 16);
    // j == 3: 70 000 endpoints open at the same moment (more than a 16-bit count of table entries), device ids spread over the id space
    const size_t n = j == 0 ? 300 : (j == 1 ? 257 : (j == 2 ? 700 : 70000));
    History h;
    for (size_t e = 0; e < n; ++e)
    {
        Stream st;
        st.dev = static_cast<uint16_t>(j == 3 ? (e / 256) * 239 + 5 : 0x0010 + e / 256);
        st.stream = static_cast<uint8_t>(e % 256);
        SentMsg s;
        s.ver = 1;
        s.mt = wire::MT_DATA;
        s.first.ts = r.next();
        s.first.idWord = static_cast<uint32_t>(e);
        s.first.flags = 0;
        s.first.ptype = 0x44;
        s.segmented = true;
        s.data = uniqueContent(static_cast<uint32_t>(20000 + e), 24, false);
        uint16_t seq = static_cast<uint16_t>(r.next());
        for (int i = 0; i < 3; ++i)
        {
            GMsg m = s.first;
            m.flags |= (i == 0 ? wire::SEG_FIRST : (i == 2 ? wire::SEG_LAST : wire::SEG_MID));
            m.payload.assign(s.data.begin() + i * 8, s.data.begin() + (i + 1) * 8);
            SFrame f;
            f.endpoint = static_cast<int>(e);
            f.raw = buildFrame(1, st.dev, wire::MT_DATA, st.stream, seq++, {m});
            if (i == 2)
                f.completes.push_back(static_cast<int>(h.msgs.size()));
            st.frames.push_back(std::move(f));
        }
        h.msgs.push_back(std::move(s));
        h.streams.push_back(std::move(st));
    }
    // endpoint n: unsegmented traffic
    {
        Stream st;
        st.dev = 0x0F00;
        st.stream = 9;
        for (int i = 0; i < 40; ++i)
        {
            SentMsg s;
            s.ver = 1;
            s.mt = wire::MT_DATA;
            s.first.ts = r.next();
            s.first.ptype = 0x45;
            s.first.flags = 0;
            s.first.idWord = 7;
            s.segmented = false;
            s.data = uniqueContent(static_cast<uint32_t>(50000 + i), 12, false);
            GMsg m = s.first;
            m.payload = s.data;
            SFrame f;
            f.endpoint = static_cast<int>(n);
            f.raw = buildFrame(1, st.dev, wire::MT_DATA, st.stream, static_cast<uint16_t>(i), {m});
            f.completes.push_back(static_cast<int>(h.msgs.size()));
            h.msgs.push_back(std::move(s));
            st.frames.push_back(std::move(f));
        }
        h.streams.push_back(std::move(st));
    }
    std::vector<int> order;
    size_t u = 0;
    for (int phase = 0; phase < 3; ++phase)
        for (size_t k = 0; k < n; ++k)
        {
            size_t e = (phase == 1) ? (k * 7) % n : ((phase == 2) ? n - 1 - k : k);
            if (phase == 1 && std::__gcd(static_cast<size_t>(7), n) != 1)
                e = k;
            order.push_back(static_cast<int>(e));
            if (k % 16 == 0 && u < 40)
            {
                order.push_back(static_cast<int>(n));
                ++u;
            }
        }
    while (u++ < 40)
        order.push_back(static_cast<int>(n));
    uint64_t il;
    bool mo;
    runInterleaving(c, h, order, il, mo);
    c.sig(mix64(il, static_cast<uint64_t>(j) + 0xe9d));
    c.count(j == 3 ? "histories_with_70000_endpoints_mid_message" : "histories_with_hundreds_of_endpoints_mid_message");
}

// deterministic: one endpoint's 3-segment message with 70 000 / 140 000 well-formed frames of two other endpoints between its segments
inline void longGap(Ctx& c, long j)
{
    size_t gap = j == 0 ? 70000 : 140000;
    Rng r = c.fixedRng(j, 18);
    History h;
    {
        Stream st;
        st.dev = 0x0102;
        st.stream = 3;
        SentMsg s;
        s.ver = 1;
        s.mt = wire::MT_DATA;
        s.first.ts = r.next();
        s.first.idWord = 5;
        s.first.flags = 0;
        s.first.ptype = 0x46;
        s.segmented = true;
        s.data = uniqueContent(31000, 30, false);
        for (int i = 0; i < 3; ++i)
        {
            GMsg m = s.first;
            m.flags |= (i == 0 ? wire::SEG_FIRST : (i == 2 ? wire::SEG_LAST : wire::SEG_MID));
            m.payload.assign(s.data.begin() + i * 10, s.data.begin() + (i + 1) * 10);
            SFrame f;
            f.endpoint = 0;
            f.raw = buildFrame(1, st.dev, wire::MT_DATA, st.stream, static_cast<uint16_t>(65534 + i), {m});
            if (i == 2)
                f.completes.push_back(0);
            st.frames.push_back(std::move(f));
        }
        h.msgs.push_back(std::move(s));
        h.streams.push_back(std::move(st));
    }
    for (int e = 1; e <= 2; ++e)
    {
        Stream st;
        st.dev = static_cast<uint16_t>(0x0102 + e - 1);
        st.stream = static_cast<uint8_t>(4 - e + 1);
        uint16_t seq = static_cast<uint16_t>(r.next());
        for (size_t i = 0; i < gap / 2; ++i)
        {
            SentMsg s;
            s.ver = 1;
            s.mt = wire::MT_DATA;
            s.first.ts = i;
            s.first.idWord = static_cast<uint32_t>(e);
            s.first.flags = 0;
            s.first.ptype = 0x47;
            s.segmented = false;
            s.data = uniqueContent(static_cast<uint32_t>(40000 + i * 2 + static_cast<size_t>(e)), 6, false);
            GMsg m = s.first;
            m.payload = s.data;
            SFrame f;
            f.endpoint = e;
            f.raw = buildFrame(1, st.dev, wire::MT_DATA, st.stream, seq++, {m});
            f.completes.push_back(static_cast<int>(h.msgs.size()));
            h.msgs.push_back(std::move(s));
            st.frames.push_back(std::move(f));
        }
        h.streams.push_back(std::move(st));
    }
    std::vector<int> order;
    order.push_back(0);
    order.push_back(0);
    for (size_t i = 0; i < gap / 2; ++i)
    {
        order.push_back(1);
        order.push_back(2);
    }
    order.push_back(0);
    uint64_t il;
    bool mo;
    runInterleaving(c, h, order, il, mo);
    c.sig(mix64(0x10a6, static_cast<uint64_t>(j)));
    c.sig(mix64(0x10a7, static_cast<uint64_t>(j)));
    c.count("histories_with_a_gap_of_more_than_65536_foreign_frames");
}

inline void randomCase(Ctx& c, long idx)
{
    Rng r = c.caseRng(idx);
    History h;
    size_t k = r.range(1, 4);
    std::vector<std::pair<uint16_t, uint8_t>> eps;
    const bool wideIds = r.chance(1, 4);  // mostly the small alphabet (neighbours collide constantly), sometimes any id
    if (wideIds && k >= 2 && r.chance(1, 3))
    {
        auto pr = decimalAliasPair(r);
        eps.push_back(pr.first);
        eps.push_back(pr.second);
    }
    while (eps.size() < k)
    {
        std::pair<uint16_t, uint8_t> e{pickDevice(r), pickStream(r)};
        if (wideIds)
        {
            // ids that differ from an earlier endpoint in single bytes / bits (aliasing under truncation or packing)
            if (!eps.empty() && r.chance(1, 2))
            {
                e = eps[r.below(eps.size())];
                switch (r.below(4))
                {
                    case 0: e.first = static_cast<uint16_t>(e.first ^ (1u << r.below(16))); break;
                    case 1: e.second = static_cast<uint8_t>(e.second ^ (1u << r.below(8))); break;
                    case 2: e.first = static_cast<uint16_t>(e.first + 0x0100); e.second = static_cast<uint8_t>(e.second - 1); break;
                    default: e.first = static_cast<uint16_t>((e.first << 8) | (e.first >> 8)); break;
                }
            }
            else
                e = {static_cast<uint16_t>(r.next()), r.byte()};
        }
        if (std::find(eps.begin(), eps.end(), e) == eps.end())
            eps.push_back(e);
    }
    size_t maxSeg = r.chance(1, 20) ? 1476 : (r.chance(1, 200) ? 16000 : 100);
    for (size_t e = 0; e < k; ++e)
        genStream(r, h, static_cast<int>(e), eps[e].first, eps[e].second, r.range(1, 6), r.chance(1, 2) ? kStartSeq[r.below(6)] : static_cast<uint16_t>(r.range(65500, 65535)), maxSeg);
    std::vector<int> order = randomMerge(r, h);
    uint64_t il;
    bool mo;
    runInterleaving(c, h, order, il, mo);
    if (mo)
        c.sig(il);
    c.count("wrap_crossings", h.wraps);
    c.count("trailing_byte_cases", h.trailingCases);
    c.count("trailing_trains_of_look_alike_messages", h.trainCases);
    c.count("zero_length_segments", h.zeroSegments);
    c.count("histories");
    if (c.samples.size() < 3)
    {
        std::string s = "endpoints=" + std::to_string(k) + " order=";
        for (size_t i = 0; i < order.size() && i < 40; ++i)
            s += std::to_string(order[i]);
        c.sample(s + " first frame=" + hex(h.streams[0].frames[0].raw, 60), 3);
    }
}

// deterministic, lean (no per-frame bookkeeping): one endpoint's 5-segment message (counters across the wrap) with 1 150 000
// well-formed unsegmented frames of two other endpoints between every two of its segments - 4.6 million frames, more than
// 2^22, pass while the message is in progress. Every foreign frame must yield exactly its one packet; the message must
// arrive complete with its last segment. (Age- or count-based clean-up of "stale" reassemblies below that horizon shows here.)
inline void veryLongGap(Ctx& c)
{
    const size_t gap = 1150000;
    Bytes data = uniqueContent(77000, 50, false);
    std::vector<Bytes> seg;
    GMsg first;
    first.ts = 0x1122334455667788ULL;
    first.idWord = 9;
    first.flags = 0;
    first.ptype = 0x48;
    for (int i = 0; i < 5; ++i)
    {
        GMsg m = first;
        m.flags |= (i == 0 ? wire::SEG_FIRST : (i == 4 ? wire::SEG_LAST : wire::SEG_MID));
        m.payload.assign(data.begin() + i * 10, data.begin() + (i + 1) * 10);
        seg.push_back(buildFrame(1, 0x0102, wire::MT_DATA, 3, static_cast<uint16_t>(65533 + i), {m}));
    }
    Bytes foreign[2];
    for (int e = 0; e < 2; ++e)
    {
        GMsg m;
        m.ts = 5;
        m.idWord = static_cast<uint32_t>(e);
        m.flags = 0;
        m.ptype = 0x49;
        m.payload = uniqueContent(static_cast<uint32_t>(78000 + e), 8, false);
        foreign[e] = buildFrame(1, static_cast<uint16_t>(0x0102 + e), wire::MT_DATA, static_cast<uint8_t>(4 - e), 0, {m});
    }
    ASAM::CMP::Decoder dec;
    c.note("history=first segment of device 0x0102 stream 3, then 4 x (1150000 unsegmented frames of two other endpoints, next segment)");
    uint16_t seq[2] = {100, 65000};
    size_t wrongCounts = 0, delivered = 0;
    std::shared_ptr<ASAM::CMP::Packet> msg;
    for (int i = 0; i < 5; ++i)
    {
        auto got = dec.decode(seg[static_cast<size_t>(i)].data(), seg[static_cast<size_t>(i)].size());
        ++c.evaluations;
        if (i < 4 && !got.empty())
            c.violation("C05:unexpected-delivery", "segment " + std::to_string(i) + " of 5 delivered a packet", "very long gap history");
        if (i == 4)
        {
            if (got.size() != 1 || !got[0])
                c.violation("C05:message-not-delivered", "the last of 5 segments, 4.6 million foreign frames after the first one, delivered " + std::to_string(got.size()) + " packets", "very long gap history");
            else
                msg = got[0];
            break;
        }
        for (size_t k = 0; k < gap; ++k)
        {
            int e = static_cast<int>(k & 1);
            Bytes& f = foreign[e];
            wire::set16(f.data() + 6, seq[e]++);
            auto g = dec.decode(f.data(), f.size());
            ++c.evaluations;
            if (g.size() != 1 || !g[0] || g[0]->getPayloadLength() != 8)
                ++wrongCounts;
            else
                ++delivered;
        }
    }
    if (wrongCounts)
        c.violation("C05:unsegmented-message-not-delivered", std::to_string(wrongCounts) + " of the foreign unsegmented frames did not yield exactly their one packet", "very long gap history");
    if (msg)
    {
        PacketSnap s = snapPacket(*msg);
        if (s.payload.bytes != data)
            c.violation("C05:payload-mismatch", "message reassembled across 4.6 million foreign frames: " + std::to_string(s.payload.bytes.size()) + " bytes delivered, 50 sent (or other content)", "very long gap history");
    }
    c.count("unsegmented_deliveries", delivered);
    c.count("histories_with_more_than_2_to_the_22_frames_while_a_message_is_open");
}

inline long count(Ctx& c)
{
    return 36 + 40 + 3 + 3 + 2 + 1 + 1 + (c.thorough() ? 3000000 : 40000);
}
inline void run(Ctx& c, long idx)
{
    if (idx < 36)
        return allMerges(c, idx);
    if (idx < 76)
        return bigTotals(c, idx - 36);
    if (idx < 79)
        return manySegments(c, idx - 76);
    if (idx < 82)
        return manyEndpoints(c, idx - 79);
    if (idx < 84)
        return longGap(c, idx - 82);
    if (idx < 85)
        return manyEndpoints(c, 3);
    if (idx < 86)
        return veryLongGap(c);
    randomCase(c, idx);
}

}  // namespace c05
}  // namespace vf
