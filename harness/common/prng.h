// Deterministic PRNG for the harness (splitmix64 seeding + xoshiro256**). No library code involved.
#pragma once
#include <cstdint>
#include <cstddef>
#include <string>
#include <vector>
#include <initializer_list>

namespace vf {

inline uint64_t splitmix64(uint64_t& s)
{
    uint64_t z = (s += 0x9E3779B97F4A7C15ULL);
    z = (z ^ (z >> 30)) * 0xBF58476D1CE4E5B9ULL;
    z = (z ^ (z >> 27)) * 0x94D049BB133111EBULL;
    return z ^ (z >> 31);
}

inline uint64_t mix64(uint64_t a, uint64_t b)
{
    uint64_t s = a * 0x9E3779B97F4A7C15ULL ^ (b + 0xD1B54A32D192ED03ULL);
    return splitmix64(s);
}

inline uint64_t hashStr(const std::string& s)
{
    uint64_t h = 1469598103934665603ULL;
    for (unsigned char c : s)
    {
        h ^= c;
        h *= 1099511628211ULL;
    }
    return h;
}

inline uint64_t hashBytes(const uint8_t* p, size_t n, uint64_t h = 1469598103934665603ULL)
{
    for (size_t i = 0; i < n; ++i)
    {
        h ^= p[i];
        h *= 1099511628211ULL;
    }
    return h;
}

class Rng
{
    uint64_t s[4];
    static uint64_t rotl(uint64_t x, int k)
    {
        return (x << k) | (x >> (64 - k));
    }

public:
    explicit Rng(uint64_t seed = 1)
    {
        reseed(seed);
    }
    void reseed(uint64_t seed)
    {
        uint64_t x = seed;
        for (auto& v : s)
            v = splitmix64(x);
    }
    uint64_t next()
    {
        const uint64_t r = rotl(s[1] * 5, 7) * 9;
        const uint64_t t = s[1] << 17;
        s[2] ^= s[0];
        s[3] ^= s[1];
        s[1] ^= s[2];
        s[0] ^= s[3];
        s[2] ^= t;
        s[3] = rotl(s[3], 45);
        return r;
    }
    // uniform in [0, n)
    uint64_t below(uint64_t n)
    {
        return n ? next() % n : 0;
    }
    // uniform in [lo, hi]
    uint64_t range(uint64_t lo, uint64_t hi)
    {
        return lo + below(hi - lo + 1);
    }
    bool chance(unsigned num, unsigned den)
    {
        return below(den) < num;
    }
    uint8_t byte()
    {
        return static_cast<uint8_t>(next() >> 24);
    }
    // log-uniform in [lo, hi], lo >= 1
    uint64_t logRange(uint64_t lo, uint64_t hi)
    {
        if (lo >= hi)
            return lo;
        int lb = 0, hb = 0;
        while ((1ULL << (lb + 1)) <= lo)
            ++lb;
        while ((1ULL << (hb + 1)) <= hi && hb < 62)
            ++hb;
        int b = static_cast<int>(range(lb, hb));
        uint64_t a = 1ULL << b, z = (b >= 62) ? hi : ((1ULL << (b + 1)) - 1);
        if (a < lo)
            a = lo;
        if (z > hi)
            z = hi;
        return range(a, z);
    }
    template <typename T>
    T pick(std::initializer_list<T> l)
    {
        return *(l.begin() + below(l.size()));
    }
    template <typename T>
    const T& pickv(const std::vector<T>& v)
    {
        return v[below(v.size())];
    }
    void fill(uint8_t* p, size_t n)
    {
        size_t i = 0;
        while (i + 8 <= n)
        {
            uint64_t v = next();
            for (int k = 0; k < 8; ++k)
                p[i++] = static_cast<uint8_t>(v >> (8 * k));
        }
        if (i < n)
        {
            uint64_t v = next();
            while (i < n)
            {
                p[i++] = static_cast<uint8_t>(v);
                v >>= 8;
            }
        }
    }
    std::vector<uint8_t> bytes(size_t n)
    {
        std::vector<uint8_t> v(n);
        fill(v.data(), n);
        return v;
    }
};

}  // namespace vf
