// Allocation failpoint: a countdown on global operator new. While armed, the n-th allocation made by the calling thread throws
// std::bad_alloc (once; the failpoint disarms itself when it fires). Disarmed (the default) the replacement operators are a plain
// pass-through to malloc / free, so ASan still tracks every block (red zones, use-after-free, leaks); what is lost under ASan is only
// its new/delete pairing check, which is irrelevant for a library without raw new[].
//
// Exactly one translation unit of a driver defines VF_FAILPOINT_IMPL before including this header.
#pragma once
#include <cstddef>
#include <cstdlib>
#include <new>

namespace vf {
namespace fp {

struct State
{
    bool counting = false;  // count allocations (armed or not)
    bool armed = false;
    long countdown = 0;     // allocations still allowed before the failure
    long seen = 0;          // allocations counted since the last reset
    long fired = 0;         // how often the failpoint fired since the last reset
};
State& state();

// RAII: count the allocations of a scope
struct Count
{
    Count()
    {
        State& s = state();
        s.counting = true;
        s.armed = false;
        s.seen = 0;
        s.fired = 0;
    }
    ~Count()
    {
        state().counting = false;
    }
    long seen() const
    {
        return state().seen;
    }
};
// RAII: let allocation number n (0-based) of the scope fail
struct FailAt
{
    explicit FailAt(long n)
    {
        State& s = state();
        s.counting = true;
        s.armed = true;
        s.countdown = n;
        s.seen = 0;
        s.fired = 0;
    }
    ~FailAt()
    {
        State& s = state();
        s.armed = false;
        s.counting = false;
    }
    bool fired() const
    {
        return state().fired > 0;
    }
};

}  // namespace fp
}  // namespace vf

#ifdef VF_FAILPOINT_IMPL
namespace vf {
namespace fp {
State& state()
{
    static thread_local State s;
    return s;
}
inline void* allocate(std::size_t n, bool nothrow)
{
    State& s = state();
    if (s.counting)
    {
        ++s.seen;
        if (s.armed)
        {
            if (s.countdown == 0)
            {
                s.armed = false;
                ++s.fired;
                if (nothrow)
                    return nullptr;
                throw std::bad_alloc();
            }
            --s.countdown;
        }
    }
    void* p = std::malloc(n ? n : 1);
    if (!p && !nothrow)
        throw std::bad_alloc();
    return p;
}
}  // namespace fp
}  // namespace vf

void* operator new(std::size_t n)
{
    return vf::fp::allocate(n, false);
}
void* operator new[](std::size_t n)
{
    return vf::fp::allocate(n, false);
}
void* operator new(std::size_t n, const std::nothrow_t&) noexcept
{
    return vf::fp::allocate(n, true);
}
void* operator new[](std::size_t n, const std::nothrow_t&) noexcept
{
    return vf::fp::allocate(n, true);
}
void operator delete(void* p) noexcept
{
    std::free(p);
}
void operator delete[](void* p) noexcept
{
    std::free(p);
}
void operator delete(void* p, std::size_t) noexcept
{
    std::free(p);
}
void operator delete[](void* p, std::size_t) noexcept
{
    std::free(p);
}
void operator delete(void* p, const std::nothrow_t&) noexcept
{
    std::free(p);
}
void operator delete[](void* p, const std::nothrow_t&) noexcept
{
    std::free(p);
}
#endif
