// Calls every const accessor of a typed payload and checks every variable-length view it reports against
// the payload's own bytes (explicit range oracle: catches far out-of-bounds views that a red zone misses).
#pragma once
#include <cstdint>
#include <string>
#include <string_view>
#include <vector>

#include <asam_cmp/analog_payload.h>
#include <asam_cmp/can_fd_payload.h>
#include <asam_cmp/can_payload.h>
#include <asam_cmp/capture_module_payload.h>
#include <asam_cmp/ethernet_payload.h>
#include <asam_cmp/interface_payload.h>
#include <asam_cmp/lin_payload.h>
#include <asam_cmp/packet.h>

namespace vf {

struct View
{
    const char* name;
    const uint8_t* ptr;
    size_t len;
};

struct AccessResult
{
    uint64_t digest = 0;       // folds every value read (keeps the reads alive, used by C19/C20 as output digest)
    std::string badView;       // name of the first view outside the payload ("" if none)
    std::string detail;
    size_t views = 0;
    size_t viewBytes = 0;
    std::vector<View>* record = nullptr;  // if set, every in-range view is also appended here (to be re-checked later)
};

inline void foldBytes(AccessResult& a, const uint8_t* p, size_t n)
{
    for (size_t i = 0; i < n; ++i)
        a.digest = (a.digest ^ p[i]) * 1099511628211ULL;
}
template <typename T>
inline void fold(AccessResult& a, T v)
{
    uint64_t x = 0;
    memcpy(&x, &v, sizeof(T) < 8 ? sizeof(T) : 8);
    a.digest = (a.digest ^ x) * 1099511628211ULL + 0x9E37;
}

inline void checkViews(AccessResult& a, const ASAM::CMP::Payload& p, const std::vector<View>& views)
{
    const uint8_t* lo = p.getRawPayload();
    const uint8_t* hi = lo + p.getLength();
    for (auto& v : views)
    {
        ++a.views;
        bool ok;
        if (v.ptr == nullptr)
            ok = (v.len == 0);
        else
            ok = v.ptr >= lo && v.ptr <= hi && v.len <= static_cast<size_t>(hi - v.ptr);
        if (!ok)
        {
            if (a.badView.empty())
            {
                a.badView = v.name;
                char b[200];
                snprintf(b, sizeof b, "%s: view [%+ld, %+ld) relative to a payload of %zu bytes%s", v.name,
                         v.ptr ? static_cast<long>(v.ptr - lo) : 0L, v.ptr ? static_cast<long>(v.ptr - lo) + static_cast<long>(v.len) : 0L, p.getLength(), v.ptr ? "" : " (null pointer with non-zero length)");
                a.detail = b;
            }
            continue;  // do not read an out-of-range view: the range oracle has already decided
        }
        a.viewBytes += v.len;
        foldBytes(a, v.ptr, v.len);
        if (a.record)
            a.record->push_back(v);
    }
}

inline View sv(const char* name, std::string_view s)
{
    return {name, reinterpret_cast<const uint8_t*>(s.data()), s.size()};
}

inline void accessCanBase(AccessResult& a, const ASAM::CMP::CanPayloadBase& p)
{
    using F = ASAM::CMP::CanPayloadBase::Flags;
    fold(a, p.getFlags());
    for (F f : {F::crcErr, F::ackErr, F::passiveAckErr, F::activeAckErr, F::ackDelErr, F::formErr, F::stuffErr, F::crcDelErr, F::eofErr, F::bitErr, F::r0, F::srrDom, F::brs, F::esi})
        fold(a, p.getFlag(f));
    fold(a, p.getId());
    fold(a, p.getRsvd());
    fold(a, p.getIde());
    fold(a, p.getCrcSupport());
    fold(a, p.getErrorPosition());
    fold(a, p.getDlc());
    fold(a, p.getDataLength());
    checkViews(a, p, {{"getData/getDataLength", p.getData(), p.getDataLength()}});
}
inline void accessCan(AccessResult& a, const ASAM::CMP::CanPayload& p)
{
    accessCanBase(a, p);
    fold(a, p.getRtr());
    fold(a, p.getCrc());
}
inline void accessCanFd(AccessResult& a, const ASAM::CMP::CanFdPayload& p)
{
    accessCanBase(a, p);
    fold(a, p.getRrs());
    fold(a, p.getCrc());
    fold(a, p.getSbc());
    fold(a, p.getSbcParity());
    fold(a, p.getSbcSupport());
}
inline void accessLin(AccessResult& a, const ASAM::CMP::LinPayload& p)
{
    using F = ASAM::CMP::LinPayload::Flags;
    fold(a, p.getFlags());
    for (F f : {F::checksumErr, F::collisionErr, F::parityErr, F::noSlaveRespErr, F::syncErr, F::framingErr, F::shortDomErr, F::longDomErr, F::wup})
        fold(a, p.getFlag(f));
    fold(a, p.getLinId());
    fold(a, p.getParityBits());
    fold(a, p.getChecksum());
    fold(a, p.getDataLength());
    checkViews(a, p, {{"getData/getDataLength", p.getData(), p.getDataLength()}});
}
inline void accessEth(AccessResult& a, const ASAM::CMP::EthernetPayload& p)
{
    using F = ASAM::CMP::EthernetPayload::Flags;
    fold(a, p.getFlags());
    for (F f : {F::fcsErr, F::frameShorterThan64b, F::txPortDown, F::collision, F::frameTooLongErr, F::phyErr, F::frameTruncated, F::fcsSupport})
        fold(a, p.getFlag(f));
    fold(a, p.getDataLength());
    checkViews(a, p, {{"getData/getDataLength", p.getData(), p.getDataLength()}});
}
inline void accessAnalog(AccessResult& a, const ASAM::CMP::AnalogPayload& p)
{
    fold(a, p.getFlags());
    auto dt = p.getSampleDt();
    fold(a, static_cast<uint16_t>(dt));
    fold(a, static_cast<uint8_t>(p.getUnit()));
    fold(a, p.getSampleInterval());
    fold(a, p.getSampleOffset());
    fold(a, p.getSampleScalar());
    size_t n = p.getSamplesCount();
    fold(a, n);
    size_t sampleSize = (dt == ASAM::CMP::AnalogPayload::SampleDt::aInt16) ? 2 : 4;
    checkViews(a, p, {{"getData/getSamplesCount", p.getData(), n * sampleSize}});
}
inline void accessCm(AccessResult& a, const ASAM::CMP::CaptureModulePayload& p)
{
    fold(a, p.getUptime());
    fold(a, p.getGmIdentity());
    fold(a, p.getGmClockQuality());
    fold(a, p.getCurrentUtcOffset());
    fold(a, p.getTimeSource());
    fold(a, p.getDomainNumber());
    fold(a, p.getGptpFlags());
    checkViews(a, p,
               {sv("getDeviceDescription", p.getDeviceDescription()),
                sv("getSerialNumber", p.getSerialNumber()),
                sv("getHardwareVersion", p.getHardwareVersion()),
                sv("getSoftwareVersion", p.getSoftwareVersion()),
                sv("getVendorDataStringView", p.getVendorDataStringView()),
                {"getVendorData/getVendorDataLength", p.getVendorData(), p.getVendorDataLength()}});
}
inline void accessIf(AccessResult& a, const ASAM::CMP::InterfacePayload& p)
{
    fold(a, p.getInterfaceId());
    fold(a, p.getMsgTotalRx());
    fold(a, p.getMsgTotalTx());
    fold(a, p.getMsgDroppedRx());
    fold(a, p.getMsgDroppedTx());
    fold(a, p.getErrorsTotalRx());
    fold(a, p.getErrorsTotalTx());
    fold(a, p.getInterfaceType());
    fold(a, static_cast<uint8_t>(p.getInterfaceStatus()));
    fold(a, p.getFeatureSupportBitmask());
    checkViews(a, p,
               {{"getStreamIds/getStreamIdsCount", p.getStreamIds(), p.getStreamIdsCount()},
                {"getVendorData/getVendorDataLength", p.getVendorData(), p.getVendorDataLength()}});
}

// generic part of every payload
inline void accessPayload(AccessResult& a, const ASAM::CMP::Payload& p)
{
    fold(a, p.isValid());
    fold(a, static_cast<uint8_t>(p.getMessageType()));
    fold(a, p.getRawPayloadType());
    fold(a, p.getType().getType());
    fold(a, p.getLength());
    if (p.getLength())
        foldBytes(a, p.getRawPayload(), p.getLength());
}

// dispatch on the payload's type the way users of the library do (slice + cast back idiom)
// returns the class name exercised or nullptr for a generic payload
inline const char* accessTyped(AccessResult& a, const ASAM::CMP::Payload& p)
{
    using PT = ASAM::CMP::PayloadType;
    accessPayload(a, p);
    if (!p.isValid())
        return nullptr;
    switch (p.getType().getType())
    {
        case PT::can: accessCan(a, static_cast<const ASAM::CMP::CanPayload&>(p)); return "can";
        case PT::canFd: accessCanFd(a, static_cast<const ASAM::CMP::CanFdPayload&>(p)); return "canfd";
        case PT::lin: accessLin(a, static_cast<const ASAM::CMP::LinPayload&>(p)); return "lin";
        case PT::analog: accessAnalog(a, static_cast<const ASAM::CMP::AnalogPayload&>(p)); return "analog";
        case PT::ethernet: accessEth(a, static_cast<const ASAM::CMP::EthernetPayload&>(p)); return "eth";
        case PT::cmStatMsg: accessCm(a, static_cast<const ASAM::CMP::CaptureModulePayload&>(p)); return "cm";
        case PT::ifStatMsg: accessIf(a, static_cast<const ASAM::CMP::InterfacePayload&>(p)); return "if";
        default: return nullptr;
    }
}

inline void accessPacketHeader(AccessResult& a, const ASAM::CMP::Packet& p)
{
    fold(a, p.isValid());
    fold(a, p.getVersion());
    fold(a, p.getDeviceId());
    fold(a, p.getStreamId());
    fold(a, p.getSequenceCounter());
    fold(a, p.getTimestamp());
    fold(a, p.getInterfaceId());
    fold(a, p.getVendorId());
    fold(a, p.getCommonFlags());
    fold(a, static_cast<uint8_t>(p.getSegmentType()));
    fold(a, p.getPayloadLength());
}

}  // namespace vf
