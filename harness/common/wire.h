// Independent wire model of ASAM CMP and of the TECMP subset the library supports.
// Written from the protocol layout (see DESIGN.md section 6, C12); it deliberately does NOT include any
// library header, Header class or swapEndian: explicit big-endian byte arithmetic only.
#pragma once
#include <cstdint>
#include <cstddef>
#include <cstring>
#include <string>
#include <vector>

namespace wire {

using Bytes = std::vector<uint8_t>;

inline void put8(Bytes& b, uint8_t v)
{
    b.push_back(v);
}
inline void put16(Bytes& b, uint16_t v)
{
    b.push_back(static_cast<uint8_t>(v >> 8));
    b.push_back(static_cast<uint8_t>(v));
}
inline void put32(Bytes& b, uint32_t v)
{
    put16(b, static_cast<uint16_t>(v >> 16));
    put16(b, static_cast<uint16_t>(v));
}
inline void put64(Bytes& b, uint64_t v)
{
    put32(b, static_cast<uint32_t>(v >> 32));
    put32(b, static_cast<uint32_t>(v));
}
inline void putBytes(Bytes& b, const uint8_t* p, size_t n)
{
    b.insert(b.end(), p, p + n);
}
inline void putBytes(Bytes& b, const Bytes& s)
{
    b.insert(b.end(), s.begin(), s.end());
}
inline void set16(uint8_t* p, uint16_t v)
{
    p[0] = static_cast<uint8_t>(v >> 8);
    p[1] = static_cast<uint8_t>(v);
}
inline void set32(uint8_t* p, uint32_t v)
{
    set16(p, static_cast<uint16_t>(v >> 16));
    set16(p + 2, static_cast<uint16_t>(v));
}
inline void set64(uint8_t* p, uint64_t v)
{
    set32(p, static_cast<uint32_t>(v >> 32));
    set32(p + 4, static_cast<uint32_t>(v));
}
inline uint16_t get16(const uint8_t* p)
{
    return static_cast<uint16_t>((p[0] << 8) | p[1]);
}
inline uint32_t get32(const uint8_t* p)
{
    return (static_cast<uint32_t>(get16(p)) << 16) | get16(p + 2);
}
inline uint64_t get64(const uint8_t* p)
{
    return (static_cast<uint64_t>(get32(p)) << 32) | get32(p + 4);
}
inline uint32_t f32bits(float f)
{
    uint32_t u;
    memcpy(&u, &f, 4);
    return u;
}
inline float bitsf32(uint32_t u)
{
    float f;
    memcpy(&f, &u, 4);
    return f;
}

// ---------------------------------------------------------------------------------------------
// ASAM CMP constants

constexpr size_t kCmpHeader = 8;
constexpr size_t kMsgHeader = 16;

enum : uint8_t
{
    MT_DATA = 0x01,
    MT_CONTROL = 0x02,
    MT_STATUS = 0x03,
    MT_VENDOR = 0xFF
};
// payload type bytes of data messages / status messages
enum : uint8_t
{
    PT_CAN = 0x01,
    PT_CANFD = 0x02,
    PT_LIN = 0x03,
    PT_FLEXRAY = 0x04,
    PT_ANALOG = 0x07,
    PT_ETHERNET = 0x08,
    PT_CM_STATUS = 0x01,
    PT_IF_STATUS = 0x02
};
// common flags
enum : uint8_t
{
    CF_RECALC = 0x01,
    CF_INSYNC = 0x02,
    CF_SEG = 0x0C,
    CF_DIR = 0x10,
    CF_OVERFLOW = 0x20,
    CF_ERROR = 0x40
};
enum : uint8_t
{
    SEG_NONE = 0x00,
    SEG_FIRST = 0x04,
    SEG_MID = 0x08,
    SEG_LAST = 0x0C
};

constexpr size_t kCanHeader = 16, kLinHeader = 8, kEthHeader = 6, kAnalogHeader = 16, kCmHeader = 26, kIfHeader = 36;

// ---------------------------------------------------------------------------------------------
// Frame / message builders

inline Bytes frameHeader(uint8_t version, uint16_t device, uint8_t msgType, uint8_t stream, uint16_t seq)
{
    Bytes f;
    put8(f, version);
    put8(f, 0);
    put16(f, device);
    put8(f, msgType);
    put8(f, stream);
    put16(f, seq);
    return f;
}

// idWord: the four bytes at offset +8 (data: interface id; status/vendor: reserved16 + vendor id16)
inline void appendMessage(
    Bytes& f, uint64_t ts, uint32_t idWord, uint8_t flags, uint8_t payloadType, uint16_t declaredLen, const uint8_t* payload, size_t n)
{
    put64(f, ts);
    put32(f, idWord);
    put8(f, flags);
    put8(f, payloadType);
    put16(f, declaredLen);
    putBytes(f, payload, n);
}
inline void appendMessage(Bytes& f, uint64_t ts, uint32_t idWord, uint8_t flags, uint8_t payloadType, const Bytes& payload)
{
    appendMessage(f, ts, idWord, flags, payloadType, static_cast<uint16_t>(payload.size()), payload.data(), payload.size());
}

struct FrameHdr
{
    uint8_t version;
    uint8_t reserved;
    uint16_t device;
    uint8_t msgType;
    uint8_t stream;
    uint16_t seq;
};
inline FrameHdr parseFrameHdr(const uint8_t* p)
{
    return {p[0], p[1], get16(p + 2), p[4], p[5], get16(p + 6)};
}
struct MsgHdr
{
    uint64_t ts;
    uint32_t idWord;
    uint8_t flags;
    uint8_t payloadType;
    uint16_t len;
    uint32_t interfaceId() const
    {
        return idWord;
    }
    uint16_t vendorId() const
    {
        return static_cast<uint16_t>(idWord & 0xFFFF);
    }
    uint8_t seg() const
    {
        return flags & CF_SEG;
    }
};
inline MsgHdr parseMsgHdr(const uint8_t* p)
{
    return {get64(p), get32(p + 8), p[12], p[13], get16(p + 14)};
}

// ---------------------------------------------------------------------------------------------
// Payload models (field structs + serialisers). "data" always means the variable part.

struct Can
{
    uint16_t flags = 0;
    uint16_t reserved = 0;
    uint32_t id = 0;  // 29 bits
    bool ide = false, rtr = false, rsvd = false;
    uint32_t crc = 0;  // CAN: 15 bits, CAN-FD: 21 bits
    bool crcSupport = false;
    // CAN-FD only
    uint8_t sbc = 0;  // 3 bits
    bool sbcParity = false, sbcSupport = false;
    uint16_t errorPosition = 0;
    uint8_t dlc = 0;
    uint8_t dataLength = 0;
    Bytes data;

    uint32_t idWord() const
    {
        return (ide ? 0x80000000u : 0) | (rtr ? 0x40000000u : 0) | (rsvd ? 0x20000000u : 0) | (id & 0x1FFFFFFFu);
    }
    uint32_t crcWordCan() const
    {
        return (crcSupport ? 0x80000000u : 0) | (crc & 0x7FFFu);
    }
    uint32_t crcWordFd() const
    {
        return (crcSupport ? 0x80000000u : 0) | (sbcSupport ? 0x40000000u : 0) | (sbcParity ? 0x01000000u : 0) |
               (static_cast<uint32_t>(sbc & 7) << 21) | (crc & 0x1FFFFFu);
    }
    // header fields from raw bytes (n >= 16); data = everything after the header
    static Can parse(const uint8_t* p, size_t n, bool fd)
    {
        Can c;
        c.flags = get16(p);
        c.reserved = get16(p + 2);
        uint32_t idw = get32(p + 4), crcw = get32(p + 8);
        c.id = idw & 0x1FFFFFFFu;
        c.ide = (idw & 0x80000000u) != 0;
        c.rtr = (idw & 0x40000000u) != 0;
        c.rsvd = (idw & 0x20000000u) != 0;
        c.crcSupport = (crcw & 0x80000000u) != 0;
        if (fd)
        {
            c.crc = crcw & 0x1FFFFFu;
            c.sbc = static_cast<uint8_t>((crcw >> 21) & 7);
            c.sbcParity = (crcw & 0x01000000u) != 0;
            c.sbcSupport = (crcw & 0x40000000u) != 0;
        }
        else
            c.crc = crcw & 0x7FFFu;
        c.errorPosition = get16(p + 12);
        c.dlc = p[14];
        c.dataLength = p[15];
        c.data.assign(p + 16, p + n);
        return c;
    }
    Bytes serialize(bool fd) const
    {
        Bytes b;
        put16(b, flags);
        put16(b, reserved);
        put32(b, idWord());
        put32(b, fd ? crcWordFd() : crcWordCan());
        put16(b, errorPosition);
        put8(b, dlc);
        put8(b, dataLength);
        putBytes(b, data);
        return b;
    }
};
// flags bits 0..9 are bus errors (CRC, ACK, passive/active ACK, ACK del, form, stuff, CRC del, EOF, bit)
constexpr uint16_t kCanErrorFlags = 0x03FF;

inline int canDlcForLength(unsigned len)
{
    if (len <= 8)
        return static_cast<int>(len);
    switch (len)
    {
        case 12: return 9;
        case 16: return 10;
        case 20: return 11;
        case 24: return 12;
        case 32: return 13;
        case 48: return 14;
        case 64: return 15;
    }
    return -1;  // no DLC code for this length
}

struct Lin
{
    uint16_t flags = 0;
    uint16_t reserved1 = 0;
    uint8_t pid = 0;  // parity b7..6, id b5..0
    uint8_t reserved2 = 0;
    uint8_t checksum = 0;
    uint8_t dataLength = 0;
    Bytes data;
    static Lin parse(const uint8_t* p, size_t n)
    {
        Lin l;
        l.flags = get16(p);
        l.reserved1 = get16(p + 2);
        l.pid = p[4];
        l.reserved2 = p[5];
        l.checksum = p[6];
        l.dataLength = p[7];
        l.data.assign(p + 8, p + n);
        return l;
    }
    Bytes serialize() const
    {
        Bytes b;
        put16(b, flags);
        put16(b, reserved1);
        put8(b, pid);
        put8(b, reserved2);
        put8(b, checksum);
        put8(b, dataLength);
        putBytes(b, data);
        return b;
    }
};

struct Eth
{
    uint16_t flags = 0;
    uint16_t reserved = 0;
    uint16_t dataLength = 0;
    Bytes data;
    Bytes serialize() const
    {
        Bytes b;
        put16(b, flags);
        put16(b, reserved);
        put16(b, dataLength);
        putBytes(b, data);
        return b;
    }
};
// unambiguous Ethernet bus-error flags: FCS error, collision, frame too long, PHY error
constexpr uint16_t kEthErrorFlagsSure = 0x0001 | 0x0008 | 0x0010 | 0x0020;
// bits the standard lists but whose "bus error" status is debatable (short frame, tx port down, truncated)
constexpr uint16_t kEthAmbiguousFlags = 0x0002 | 0x0004 | 0x0040;

struct Analog
{
    uint16_t flags = 0;  // sample datatype in bits 1..0 (0 = int16, 1 = int32)
    uint8_t reserved = 0;
    uint8_t unit = 0;
    uint32_t intervalBits = 0, offsetBits = 0, scalarBits = 0;  // IEEE-754 bit patterns
    Bytes data;
    Bytes serialize() const
    {
        Bytes b;
        put16(b, flags);
        put8(b, reserved);
        put8(b, unit);
        put32(b, intervalBits);
        put32(b, offsetBits);
        put32(b, scalarBits);
        putBytes(b, data);
        return b;
    }
};

// length-prefixed string as the CM status message stores it: len16 (even, includes >= 1 NUL) + chars + NULs
inline void putCmString(Bytes& b, const std::string& s)
{
    size_t len = s.size() + 1;
    if (len % 2)
        ++len;
    put16(b, static_cast<uint16_t>(len));
    putBytes(b, reinterpret_cast<const uint8_t*>(s.data()), s.size());
    for (size_t i = s.size(); i < len; ++i)
        put8(b, 0);
}

struct Cm
{
    uint64_t uptime = 0, gmIdentity = 0;
    uint32_t gmClockQuality = 0;
    uint16_t utcOffset = 0;
    uint8_t timeSource = 0, domain = 0, reserved = 0, gptpFlags = 0;
    std::string description, serial, hwVersion, swVersion;
    Bytes vendorData;
    Bytes serializeHeader() const
    {
        Bytes b;
        put64(b, uptime);
        put64(b, gmIdentity);
        put32(b, gmClockQuality);
        put16(b, utcOffset);
        put8(b, timeSource);
        put8(b, domain);
        put8(b, reserved);
        put8(b, gptpFlags);
        return b;
    }
    Bytes serialize() const
    {
        Bytes b = serializeHeader();
        putCmString(b, description);
        putCmString(b, serial);
        putCmString(b, hwVersion);
        putCmString(b, swVersion);
        put16(b, static_cast<uint16_t>(vendorData.size()));
        putBytes(b, vendorData);
        return b;
    }
};

struct If
{
    uint32_t interfaceId = 0, msgTotalRx = 0, msgTotalTx = 0, msgDroppedRx = 0, msgDroppedTx = 0, errorsTotalRx = 0, errorsTotalTx = 0;
    uint8_t interfaceType = 0, interfaceStatus = 0;
    uint16_t reserved = 0;
    uint32_t featureBitmask = 0;
    Bytes streamIds;
    Bytes vendorData;
    Bytes serializeHeader() const
    {
        Bytes b;
        put32(b, interfaceId);
        put32(b, msgTotalRx);
        put32(b, msgTotalTx);
        put32(b, msgDroppedRx);
        put32(b, msgDroppedTx);
        put32(b, errorsTotalRx);
        put32(b, errorsTotalTx);
        put8(b, interfaceType);
        put8(b, interfaceStatus);
        put16(b, reserved);
        put32(b, featureBitmask);
        return b;
    }
    Bytes serialize() const
    {
        Bytes b = serializeHeader();
        put16(b, static_cast<uint16_t>(streamIds.size()));
        putBytes(b, streamIds);
        if (streamIds.size() % 2)
            put8(b, 0);
        put16(b, static_cast<uint16_t>(vendorData.size()));
        putBytes(b, vendorData);
        return b;
    }
};

// ---------------------------------------------------------------------------------------------
// Consistency predicates of the wire model (what "well-formed / consistent with its length" means).
// They look only at the structure the standard defines, never at library code.

inline bool canConsistent(const uint8_t* p, size_t n)
{
    return n >= kCanHeader && static_cast<size_t>(p[15]) <= n - kCanHeader;
}
inline bool canHasBusError(const uint8_t* p)
{
    return (get16(p) & kCanErrorFlags) != 0;
}
inline bool linConsistent(const uint8_t* p, size_t n)
{
    return n >= kLinHeader && static_cast<size_t>(p[7]) <= n - kLinHeader;
}
inline bool ethConsistent(const uint8_t* p, size_t n)
{
    return n >= kEthHeader && static_cast<size_t>(get16(p + 4)) <= n - kEthHeader;
}
inline bool analogConsistent(const uint8_t* p, size_t n)
{
    return n >= kAnalogHeader && (get16(p) & 3) <= 1;
}
// walks the five length-prefixed fields; on success returns true and the offsets/lengths
struct CmViews
{
    size_t off[5];
    size_t len[5];
};
inline bool cmConsistent(const uint8_t* p, size_t n, CmViews* v = nullptr)
{
    if (n < kCmHeader)
        return false;
    size_t o = kCmHeader;
    for (int i = 0; i < 5; ++i)
    {
        if (n - o < 2)
            return false;
        size_t l = get16(p + o);
        o += 2;
        if (n - o < l)
            return false;
        if (v)
        {
            v->off[i] = o;
            v->len[i] = l;
        }
        o += l;
    }
    return true;
}
struct IfViews
{
    size_t idsOff, idsCount, vendorOff, vendorLen;
};
inline bool ifConsistent(const uint8_t* p, size_t n, IfViews* v = nullptr)
{
    if (n < kIfHeader + 4)
        return false;
    if (p[29] > 2)
        return false;  // interface status: 0 down, 1 up, 2 disabled
    size_t o = kIfHeader;
    size_t c = get16(p + o);
    o += 2;
    size_t padded = c + (c % 2);
    if (n - o < padded + 2)
        return false;
    size_t idsOff = o;
    o += padded;
    size_t vl = get16(p + o);
    o += 2;
    if (n - o < vl)
        return false;
    if (v)
        *v = {idsOff, c, o, vl};
    return true;
}

// ---------------------------------------------------------------------------------------------
// TECMP (subset): 28-byte header, then payload

constexpr size_t kTecmpHeader = 28;
enum : uint8_t
{
    TMT_CONTROL = 0x00,
    TMT_CM_STATUS = 0x01,
    TMT_BUS_STATUS = 0x02,
    TMT_DATA = 0x03,
    TMT_CONFIG_STATUS = 0x04,
    TMT_REPLAY = 0x0A
};
enum : uint16_t
{
    TDT_CAN = 0x0002,
    TDT_CANFD = 0x0003,
    TDT_LIN = 0x0004,
    TDT_FLEXRAY = 0x0008,
    TDT_UART = 0x0010,
    TDT_ANALOG = 0x0020,
    TDT_ETHERNET = 0x0080
};

struct Tecmp
{
    uint8_t marker = 0;
    uint8_t device = 0;
    uint16_t counter = 0;
    uint8_t version = 3;
    uint8_t msgType = TMT_DATA;
    uint16_t dataType = TDT_CAN;
    uint16_t reserved = 0;
    uint16_t deviceFlags = 0;
    uint32_t interfaceId = 0;
    uint64_t timestamp = 0;
    uint16_t payloadLength = 0;
    uint16_t dataFlags = 0;
    Bytes serializeHeader() const
    {
        Bytes b;
        put8(b, marker);
        put8(b, device);
        put16(b, counter);
        put8(b, version);
        put8(b, msgType);
        put16(b, dataType);
        put16(b, reserved);
        put16(b, deviceFlags);
        put32(b, interfaceId);
        put64(b, timestamp);
        put16(b, payloadLength);
        put16(b, dataFlags);
        return b;
    }
    Bytes frame(const Bytes& payload) const
    {
        Bytes b = serializeHeader();
        putBytes(b, payload);
        return b;
    }
};

inline Bytes tecmpCan(uint32_t arbId, uint8_t length, const Bytes& data, const Bytes& crcBytes)
{
    Bytes b;
    put32(b, arbId);
    put8(b, length);
    putBytes(b, data);
    putBytes(b, crcBytes);
    return b;
}
inline Bytes tecmpLin(uint8_t pid, uint8_t length, const Bytes& data, const Bytes& checksum)
{
    Bytes b;
    put8(b, pid);
    put8(b, length);
    putBytes(b, data);
    putBytes(b, checksum);
    return b;
}
struct TecmpStatusGeneric
{
    uint8_t vendorId = 0, cmVersion = 0, cmType = 0, reserved = 0;
    uint16_t vendorDataLength = 0, deviceId = 0;
    uint32_t serial = 0;
    void put(Bytes& b) const
    {
        put8(b, vendorId);
        put8(b, cmVersion);
        put8(b, cmType);
        put8(b, reserved);
        put16(b, vendorDataLength);
        put16(b, deviceId);
        put32(b, serial);
    }
};
struct TecmpCmVendor
{
    uint8_t reserved = 0, swMajor = 0, swMinor = 0, swPatch = 0, hwMajor = 0, hwMinor = 0, bufferFill = 0, overflow = 0;
    uint32_t bufferSize = 0;
    uint64_t lifecycle = 0;
    uint8_t voltWhole = 0, voltFrac = 0, chassisTemp = 0, siliconTemp = 0;
    void put(Bytes& b) const
    {
        put8(b, reserved);
        put8(b, swMajor);
        put8(b, swMinor);
        put8(b, swPatch);
        put8(b, hwMajor);
        put8(b, hwMinor);
        put8(b, bufferFill);
        put8(b, overflow);
        put32(b, bufferSize);
        put64(b, lifecycle);
        put8(b, voltWhole);
        put8(b, voltFrac);
        put8(b, chassisTemp);
        put8(b, siliconTemp);
    }
};
struct TecmpBusEntry
{
    uint32_t interfaceId = 0, messagesTotal = 0, errorsTotal = 0;
    void put(Bytes& b) const
    {
        put32(b, interfaceId);
        put32(b, messagesTotal);
        put32(b, errorsTotal);
    }
};

}  // namespace wire
