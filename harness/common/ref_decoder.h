// Reference reassembly model over raw frames (independent parse with wire.h, no library code).
// Per endpoint (device, stream): nothing, or one open message {version, message type, last counter, last
// segment kind, first-segment header, accumulated declared payload bytes, received segment bytes}.
// Validated against the repaired library on > 1 M frames during the design phase (DESIGN.md section 7).
#pragma once
#include <cstdint>
#include <map>
#include <utility>
#include <vector>

#include "wire.h"

namespace vf {

struct RefDelivery
{
    uint16_t device;
    uint8_t stream;
    uint8_t version, msgType;
    wire::MsgHdr hdr;   // header of the (first) message
    wire::Bytes data;   // declared payload bytes (concatenated for segmented messages)
    bool reassembled;
};

struct RefOpen
{
    uint8_t version, msgType;
    uint16_t seq;
    uint8_t lastSeg;  // wire::SEG_FIRST or SEG_MID
    wire::MsgHdr hdr;
    wire::Bytes data;
    size_t segBytes;   // sum over received segments of (16 + declared length)
    size_t segments;
};

struct RefDecoder
{
    using Key = std::pair<uint16_t, uint8_t>;
    std::map<Key, RefOpen> open;

    static bool messageOk(const uint8_t* p, size_t rem)
    {
        if (rem < wire::kMsgHeader)
            return false;
        wire::MsgHdr h = wire::parseMsgHdr(p);
        return h.len <= rem - wire::kMsgHeader && !(h.flags & wire::CF_ERROR) && h.payloadType != 0;
    }

    // is this buffer handled by the CMP path at all (>= 8 bytes, first byte != 0)?
    static bool isCmp(const uint8_t* f, size_t n)
    {
        return f != nullptr && n >= wire::kCmpHeader && f[0] != 0;
    }

    std::vector<RefDelivery> feed(const uint8_t* f, size_t n)
    {
        std::vector<RefDelivery> out;
        if (!isCmp(f, n))
            return out;
        wire::FrameHdr fh = wire::parseFrameHdr(f);
        Key key{fh.device, fh.stream};
        size_t off = wire::kCmpHeader;
        while (off < n)
        {
            if (!messageOk(f + off, n - off))
            {
                open.erase(key);
                break;
            }
            wire::MsgHdr h = wire::parseMsgHdr(f + off);
            const uint8_t* data = f + off + wire::kMsgHeader;
            if (h.seg() == wire::SEG_NONE)
            {
                open.erase(key);
                out.push_back({fh.device, fh.stream, fh.version, fh.msgType, h, wire::Bytes(data, data + h.len), false});
                off += wire::kMsgHeader + h.len;
                continue;
            }
            if (h.seg() == wire::SEG_FIRST)
            {
                open[key] = RefOpen{fh.version, fh.msgType, fh.seq, wire::SEG_FIRST, h, wire::Bytes(data, data + h.len), wire::kMsgHeader + h.len, 1};
                break;
            }
            auto it = open.find(key);
            bool cont = it != open.end() && it->second.version == fh.version && it->second.msgType == fh.msgType &&
                        static_cast<uint16_t>(it->second.seq + 1) == fh.seq;
            if (!cont)
            {
                open.erase(key);
                break;
            }
            RefOpen& o = it->second;
            o.data.insert(o.data.end(), data, data + h.len);
            o.seq = fh.seq;
            o.lastSeg = h.seg();
            o.segBytes += wire::kMsgHeader + h.len;
            ++o.segments;
            if (h.seg() == wire::SEG_LAST)
            {
                out.push_back({fh.device, fh.stream, o.version, o.msgType, o.hdr, o.data, true});
                open.erase(it);
            }
            break;
        }
        return out;
    }
    std::vector<RefDelivery> feed(const wire::Bytes& f)
    {
        return feed(f.data(), f.size());
    }
};

}  // namespace vf
