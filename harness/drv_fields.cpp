// drv_fields: C11 (setters), C12 (wire layout), C13 (payload builders), C14 (value semantics). ASan + UBSan flavour.
#define VF_FAILPOINT_IMPL
#include "failpoint.h"
#include "bld_c13.h"
#include "fld_engine.h"
#include "val_c14.h"

using namespace vf;

// The builders outside main(): the same fixed sequence of setData / setter calls is run during static initialisation, inside
// main() and after main() has returned; the raw bytes and the DLC codes must be the same each time.
static std::vector<std::string> buildFixedSet()
{
    using namespace ASAM::CMP;
    std::vector<std::string> out;
    std::vector<uint8_t> data(300);
    for (size_t i = 0; i < data.size(); ++i)
        data[i] = static_cast<uint8_t>(i * 7 + 1);
    auto rec = [&](const char* what, const Payload& p) { out.push_back(std::string(what) + " raw=" + hex(p.getRawPayload(), p.getLength(), 120)); };
    for (unsigned n = 0; n <= 64; ++n)
    {
        CanPayload c;
        c.setId(0x123);
        c.setData(data.data(), static_cast<uint8_t>(n));
        out.push_back("CanPayload len=" + std::to_string(n) + " dlc=" + std::to_string(c.getDlc()) + " raw=" + hex(c.getRawPayload(), c.getLength(), 40));
        CanFdPayload f;
        f.setData(data.data(), static_cast<uint8_t>(n));
        out.push_back("CanFdPayload len=" + std::to_string(n) + " dlc=" + std::to_string(f.getDlc()) + " raw=" + hex(f.getRawPayload(), f.getLength(), 40));
    }
    LinPayload l;
    l.setLinId(5);
    l.setData(data.data(), 8);
    rec("LinPayload", l);
    EthernetPayload e;
    e.setData(data.data(), 100);
    rec("EthernetPayload", e);
    AnalogPayload a;
    a.setSampleInterval(0.5f);
    a.setData(data.data(), 64);
    rec("AnalogPayload", a);
    CaptureModulePayload cm;
    cm.setData("description", "serial", "hw1", "sw22", {1, 2, 3});
    rec("CaptureModulePayload", cm);
    InterfacePayload ifp;
    ifp.setInterfaceId(77);
    ifp.setData(data.data(), 3, data.data() + 10, 5);
    rec("InterfacePayload", ifp);
    Packet p;
    p.setPayload(e);
    p.setTimestamp(0x1122334455667788ULL);
    uint8_t hdr[24] = {0};
    p.getRawCmpHeader(hdr);
    p.getRawMessageHeader(hdr + 8);
    out.push_back("Packet raw headers=" + hex(hdr, sizeof hdr, 24));
    // every field of every class of the C11 / C12 table: written on a default object (a value with bits at both ends of the
    // field), raw image and read-back recorded; then every getter on an all-ones image
    for (auto& cd : fld::classes())
    {
        auto obj = cd.makeDefault();
        std::string line = cd.name + ":";
        for (auto& f : cd.fields)
        {
            uint64_t v = f.domain.empty() ? (f.isFloat ? 0x3fc00000ULL : ((f.maxValue() & 0xA5A5A5A5A5A5A5A5ULL) | 1 | (f.maxValue() ^ (f.maxValue() >> 1)))) & f.maxValue() : f.domain[f.domain.size() / 2];
            f.set(*obj, v);
            char b[64];
            snprintf(b, sizeof b, " %s=%llx/%llx", f.name.c_str(), (unsigned long long) v, (unsigned long long) f.get(*obj));
            line += b;
        }
        line += " raw=" + hex(obj->raw(), 64);
        out.push_back(line);
        auto ones = cd.makeFromRaw(Bytes(cd.backgroundSize, 0xFF));
        std::string l2 = cd.name + " (all-ones image):";
        for (auto& f : cd.fields)
        {
            char b[48];
            snprintf(b, sizeof b, " %s=%llx", f.name.c_str(), (unsigned long long) f.get(*ones));
            l2 += b;
        }
        out.push_back(l2);
    }
    return out;
}
static std::string buildDifference(const std::vector<std::string>& a, const std::vector<std::string>& b)
{
    for (size_t i = 0; i < a.size() && i < b.size(); ++i)
        if (a[i] != b[i])
            return "then: " + a[i] + " now: " + b[i];
    return a.size() == b.size() ? "" : "different number of results";
}
static void buildAfterMain();
// (never destroyed: the atexit handler still reads it)
static const std::vector<std::string>& gBuiltBeforeMain = *new std::vector<std::string>((lateReport(), atexit(buildAfterMain), probeInChild(buildFixedSet)));
static void buildAfterMain()
{
    const std::string& prop = lateReport().prop;
    if ((prop != "C11" && prop != "C12" && prop != "C13") || lateReport().shard != 0)
        return;
    std::string d = buildDifference(gBuiltBeforeMain, buildFixedSet());
    if (!d.empty())
        lateViolation(prop + ":builder-result-after-main-returned-differs", d);
}
static void buildOutsideMainCase(Ctx& c)
{
    auto now = buildFixedSet();
    std::string d = probeDied(gBuiltBeforeMain);
    if (d.empty())
        d = buildDifference(gBuiltBeforeMain, now);
    ++c.evaluations;
    c.count("builder_calls_also_made_before_and_after_main", now.size());
    if (!d.empty())
        c.violation(c.prop + ":builder-result-before-main-differs", "built during static initialisation / inside main(): " + d, "fixed builder sequence");
}

static long countCases(Ctx& c)
{
    if (c.prop == "C12") return fld::count(c) + c13::detCount() + (c.thorough() ? 400000 : 60000);
    if (c.prop == "C11") return fld::count(c) + c13::detCount() + (c.thorough() ? 400000 : 60000);
    if (c.prop == "C13") return c13::count(c);
    if (c.prop == "C14") return c14::count(c);
    return -1;
}
static void runCase(Ctx& c, long idx)
{
    if (idx == 0 && (c.prop == "C11" || c.prop == "C12" || c.prop == "C13"))
        buildOutsideMainCase(c);
    if ((c.prop == "C12" || c.prop == "C11") && idx >= fld::count(c))
    {
        // layout of the variable-length parts written by setData (same executions as C13, judged against the wire model)
        long j = idx - fld::count(c);
        if (j < c13::detCount())
            c13::det(c, j);
        else
        {
            c13::random(c, j);
            if (c.prop == "C12")
            {
                Rng r = c.caseRng(idx ^ 0x5A5A);
                fld::packetRawHeaders(c, r, 6);
            }
        }
        c.count("variable_part_layout_cases");
    }
    else if (c.prop == "C11" || c.prop == "C12") fld::run(c, idx);
    else if (c.prop == "C13")
    {
        c13::run(c, idx);
        if (c.samples.size() < 3 && idx >= c13::detCount())
            c.sample("random builder sequence case " + std::to_string(idx) + " (class " + std::to_string(idx % 8) + ")", 3);
    }
    else c14::run(c, idx);
}
int main(int argc, char** argv)
{
    return driverMain(argc, argv, countCases, runCase);
}
