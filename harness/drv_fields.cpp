// drv_fields: C11 (setters), C12 (wire layout), C13 (payload builders), C14 (value semantics). ASan + UBSan flavour.
#include "bld_c13.h"
#include "fld_engine.h"
#include "val_c14.h"

using namespace vf;

static long countCases(Ctx& c)
{
    if (c.prop == "C12") return fld::count(c) + c13::detCount() + (c.thorough() ? 400000 : 60000);
    if (c.prop == "C11") return fld::count(c) + c13::detCount() + (c.thorough() ? 400000 : 60000);
    if (c.prop == "C13") return c13::count(c);
    if (c.prop == "C14") return c14::count(c);
    return -1;
}
static void runCase(Ctx& c, long idx)
{
    if ((c.prop == "C12" || c.prop == "C11") && idx >= fld::count(c))
    {
        // layout of the variable-length parts written by setData (same executions as C13, judged against the wire model)
        long j = idx - fld::count(c);
        if (j < c13::detCount())
            c13::det(c, j);
        else
        {
            c13::random(c, j);
            if (c.prop == "C12")
            {
                Rng r = c.caseRng(idx ^ 0x5A5A);
                fld::packetRawHeaders(c, r, 6);
            }
        }
        c.count("variable_part_layout_cases");
    }
    else if (c.prop == "C11" || c.prop == "C12") fld::run(c, idx);
    else if (c.prop == "C13")
    {
        c13::run(c, idx);
        if (c.samples.size() < 3 && idx >= c13::detCount())
            c.sample("random builder sequence case " + std::to_string(idx) + " (class " + std::to_string(idx % 8) + ")", 3);
    }
    else c14::run(c, idx);
}
int main(int argc, char** argv)
{
    return driverMain(argc, argv, countCases, runCase);
}
