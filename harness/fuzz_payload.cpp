// libFuzzer target (thorough tier of C03): first byte selects the typed payload class, the rest is the buffer.
// If the class validator accepts, every accessor runs on a payload built from an exact-size heap copy that is
// freed first; every reported view must lie inside the payload (range oracle); the same buffer also goes
// through the decoder and through Packet::isValidPacket / Packet(msgType, ...).
#include <asam_cmp/decoder.h>

#include "accessors.h"
#include "fuzz_common.h"
#include "framegen.h"

using namespace vf;
using namespace ASAM::CMP;

static const Kind kKinds[7] = {K_CAN, K_CANFD, K_LIN, K_ETH, K_ANALOG, K_CM, K_IF};

extern "C" int LLVMFuzzerInitialize(int*, char***)
{
    const char* dir = getenv("VF_WRITE_CORPUS");
    if (dir)
    {
        Rng r(3);
        size_t n = 0;
        for (int c = 0; c < 7; ++c)
            for (int i = 0; i < 6; ++i)
            {
                Bytes b = genPayload(kKinds[c], kindMinLen(kKinds[c]) + static_cast<size_t>(i) * 5, r);
                b.insert(b.begin(), static_cast<uint8_t>(c));
                writeCorpusFile(dir, n++, b);
            }
    }
    return 0;
}

template <typename P, typename F>
static void direct(const uint8_t* b, size_t n, F access, const char* name)
{
    uint8_t* heap = new uint8_t[n ? n : 1];
    if (n)
        memcpy(heap, b, n);
    bool ok = P::isValidPayload(heap, n);
    if (ok)
    {
        P obj(heap, n);
        delete[] heap;
        heap = nullptr;
        AccessResult a;
        accessPayload(a, obj);
        access(a, obj);
        if (!a.badView.empty())
            fuzzViolation("C03:view-outside-payload", std::string(name) + ": " + a.detail);
    }
    delete[] heap;
}

extern "C" int LLVMFuzzerTestOneInput(const uint8_t* data, size_t size)
{
    if (size < 1)
        return 0;
    int cls = data[0] % 7;
    const uint8_t* b = data + 1;
    size_t n = size - 1;
    switch (cls)
    {
        case 0: direct<CanPayload>(b, n, accessCan, "can"); break;
        case 1: direct<CanFdPayload>(b, n, accessCanFd, "canfd"); break;
        case 2: direct<LinPayload>(b, n, accessLin, "lin"); break;
        case 3: direct<EthernetPayload>(b, n, accessEth, "eth"); break;
        case 4: direct<AnalogPayload>(b, n, accessAnalog, "analog"); break;
        case 5: direct<CaptureModulePayload>(b, n, accessCm, "cm"); break;
        default: direct<InterfacePayload>(b, n, accessIf, "if"); break;
    }
    // decoder path and message-level path
    static const uint8_t pts[7] = {wire::PT_CAN, wire::PT_CANFD, wire::PT_LIN, wire::PT_ETHERNET, wire::PT_ANALOG, wire::PT_CM_STATUS, wire::PT_IF_STATUS};
    uint8_t mt = cls >= 5 ? wire::MT_STATUS : wire::MT_DATA;
    GMsg m;
    m.ptype = pts[cls];
    m.payload.assign(b, b + n);
    Bytes f = buildFrame(1, 1, mt, 0, 1, {m});
    {
        uint8_t* heap = new uint8_t[f.size()];
        memcpy(heap, f.data(), f.size());
        Decoder dec;
        auto got = dec.decode(heap, f.size());
        delete[] heap;
        for (auto& p : got)
        {
            if (!p || !p->isValid())
                continue;
            AccessResult a;
            accessTyped(a, p->getPayload());
            if (!a.badView.empty())
                fuzzViolation("C03:view-outside-payload", "decoder path: " + a.detail);
        }
    }
    {
        size_t mlen = f.size() - 8;
        uint8_t* heap = new uint8_t[mlen];
        memcpy(heap, f.data() + 8, mlen);
        if (Packet::isValidPacket(heap, mlen))
        {
            Packet p(static_cast<CmpHeader::MessageType>(mt), heap, mlen);
            delete[] heap;
            heap = nullptr;
            if (p.isValid())
            {
                AccessResult a;
                accessTyped(a, p.getPayload());
                if (!a.badView.empty())
                    fuzzViolation("C03:view-outside-payload", "message-level path: " + a.detail);
            }
        }
        delete[] heap;
    }
    return 0;
}
