// libFuzzer target (thorough tier of C15): the input (first byte forced to 0x00, at least 28 bytes) is a TECMP
// frame; the result of both entry points is judged by the independent TECMP oracle (tecmp_oracle.h).
#include <asam_cmp/decoder.h>
#include <asam_cmp/tecmp_decoder.h>

#include "canon.h"
#include "fuzz_common.h"
#include "tecmp_oracle.h"

using namespace vf;
using namespace vf::tec;

extern "C" int LLVMFuzzerInitialize(int*, char***)
{
    const char* dir = getenv("VF_WRITE_CORPUS");
    if (dir)
    {
        size_t n = 0;
        for (auto& c : canonicalFrames())
            if (!c.frame.empty() && c.frame[0] == 0)
                writeCorpusFile(dir, n++, c.frame);
        Rng r(5);
        for (int i = 0; i < 40; ++i)
            writeCorpusFile(dir, n++, genTecmpFrame(r));
    }
    return 0;
}

extern "C" int LLVMFuzzerTestOneInput(const uint8_t* data, size_t size)
{
    Bytes f(data, data + size);
    if (!f.empty())
        f[0] = 0;
    for (int entry = 0; entry < 2; ++entry)
    {
        uint8_t* heap = new uint8_t[f.size() ? f.size() : 1];
        if (!f.empty())
            memcpy(heap, f.data(), f.size());
        std::vector<std::shared_ptr<ASAM::CMP::Packet>> got;
        if (entry == 0)
        {
            ASAM::CMP::Decoder dec;
            got = dec.decode(heap, f.size());
        }
        else
            got = TECMP::Decoder::Decode(heap, f.size());
        delete[] heap;
        for (auto& p : got)
            if (!p)
                fuzzViolation("C15:null-packet", "null packet");
        if (f.size() < 28)
        {
            if (!got.empty())
                fuzzViolation("C15:packet-for-unsupported-or-nonfitting-message", "buffer shorter than a TECMP header yields packets");
            continue;
        }
        TCase tc = fromRaw(f);
        expectation(tc);
        if (tc.want == W_SAFETY_ONLY)
            continue;
        if (tc.want == W_NONE)
        {
            if (!got.empty())
                fuzzViolation("C15:packet-for-unsupported-or-nonfitting-message", "message type " + std::to_string(tc.h.msgType) + " data type " + std::to_string(tc.h.dataType));
            continue;
        }
        if (tc.want == W_NONE_OR_CORRECT && got.empty())
            continue;
        if (got.size() != tc.exp.size())
            fuzzViolation(got.size() < tc.exp.size() ? "C15:packet-missing" : "C15:surplus-packet", std::to_string(got.size()) + " packets, expected " + std::to_string(tc.exp.size()));
        for (size_t i = 0; i < got.size(); ++i)
        {
            std::string detail;
            std::string field = comparePacket(*got[i], tc.h, tc.exp[i], detail);
            if (!field.empty())
                fuzzViolation("C15:" + field, detail);
        }
    }
    return 0;
}
