// drv_threads: C19 - separate codec instances can be used concurrently.
// T threads start on a barrier, each owning an Encoder, a Decoder and a Status (and calling the static TECMP
// decoder), running a seeded workload and folding every output into a digest. The same workloads were run
// single-threaded first; digests must match. Built with -fsanitize=thread: the orchestrator counts
// ThreadSanitizer report blocks from the log (and runs a reduced workload under helgrind in the thorough tier).
#include <atomic>
#include <sched.h>
#include <thread>

#include "driver.h"
#include "workload.h"

using namespace vf;

namespace {

std::atomic<int> gInFlight{0};
std::atomic<int> gMaxInFlight{0};

// proto: if set, the thread's Encoder / Decoder / Status start as copies of these (made by the caller before any thread runs)
uint64_t runOne(uint64_t seed, size_t steps, bool threaded, uint64_t jitterSeed, int focus, const wl::State* proto = nullptr)
{
    wl::State fresh;
    wl::State st(proto ? *proto : fresh);
    wl::DigestSink sink;
    Rng r(seed);
    Rng jr(jitterSeed);
    wl::Hooks h;
    if (threaded)
    {
        h.enter = [] {
            int v = gInFlight.fetch_add(1, std::memory_order_relaxed) + 1;
            int m = gMaxInFlight.load(std::memory_order_relaxed);
            while (v > m && !gMaxInFlight.compare_exchange_weak(m, v, std::memory_order_relaxed))
            {
            }
        };
        h.leave = [] { gInFlight.fetch_sub(1, std::memory_order_relaxed); };
        h.between = [&jr] {
            // jitter between (never inside) library calls diversifies the schedules
            if (jr.chance(1, 8))
                sched_yield();
        };
        wl::hooks() = &h;
    }
    for (size_t i = 0; i < steps; ++i)
        wl::step(st, r, sink, focus);
    wl::hooks() = nullptr;
    return sink.h ^ (sink.count << 1);
}

struct Barrier
{
    std::atomic<int> waiting{0};
    int n;
    explicit Barrier(int n_)
        : n(n_)
    {
    }
    void wait()
    {
        waiting.fetch_add(1, std::memory_order_acq_rel);
        while (waiting.load(std::memory_order_acquire) < n)
            sched_yield();
    }
};

int threadsFor(const Ctx& c)
{
    const char* e = getenv("VF_THREADS");
    if (e)
        return atoi(e);
    return c.thorough() ? 16 : 8;
}
size_t stepsFor(const Ctx& c)
{
    const char* e = getenv("VF_STEPS");
    if (e)
        return static_cast<size_t>(atol(e));
    return c.thorough() ? 1500 : 500;
}

// One round in sixteen: every thread keeps tens of megabytes of unfinished reassemblies in its own decoder at the same
// moment (a barrier between "start all messages" and "finish all messages" makes the peaks coincide) - several hundred
// megabytes in the process, far less in any single decoder. Each decoder owes the result it gives alone.
uint64_t heavyOne(int t, size_t messages, Barrier* mid)
{
    ASAM::CMP::Decoder dec;
    wire::Bytes seg(60000);
    for (size_t i = 0; i < seg.size(); ++i)
        seg[i] = static_cast<uint8_t>(i * 31 + static_cast<size_t>(t));
    uint64_t digest = 0x19;
    size_t delivered = 0;
    for (int phase = 0; phase < 2; ++phase)
    {
        for (size_t i = 0; i < messages; ++i)
        {
            const uint16_t dev = static_cast<uint16_t>(1 + i / 200);
            const uint8_t stream = static_cast<uint8_t>(i % 200);
            wire::Bytes f = wire::frameHeader(1, dev, wire::MT_DATA, stream, static_cast<uint16_t>(100 + phase));
            if (phase == 0)
                wire::appendMessage(f, i, 7, wire::SEG_FIRST, 0x42, seg);
            else
                wire::appendMessage(f, i, 7, wire::SEG_LAST, 0x42, wire::Bytes(8, 0xEE));
            auto got = dec.decode(f.data(), f.size());
            for (auto& p : got)
                if (p)
                {
                    ++delivered;
                    digest = mix64(digest, p->getPayload().getLength() * 131 + p->getDeviceId() * 7 + p->getStreamId());
                }
        }
        if (phase == 0 && mid)
            mid->wait();
    }
    return mix64(digest, delivered);
}

void heavyRound(Ctx& c, long idx)
{
    const int T = threadsFor(c);
    const size_t messages = 700;
    c.note("heavy round " + std::to_string(idx) + " threads=" + std::to_string(T));
    std::vector<uint64_t> got(static_cast<size_t>(T));
    Barrier start(T), mid(T);
    std::vector<std::thread> th;
    for (int t = 0; t < T; ++t)
        th.emplace_back([&, t] {
            start.wait();
            got[static_cast<size_t>(t)] = heavyOne(t, messages, &mid);
        });
    for (auto& x : th)
        x.join();
    for (int t = 0; t < T; ++t)
    {
        ++c.evaluations;
        uint64_t alone = heavyOne(t, messages, nullptr);
        if (alone != got[static_cast<size_t>(t)])
        {
            char buf[240];
            snprintf(buf, sizeof buf, "heavy round %ld thread %d: a decoder holding %zu unfinished 60000-byte messages gives digest %016llx next to %d other decoders doing the same, %016llx alone",
                     idx, t, messages, (unsigned long long) got[static_cast<size_t>(t)], T - 1, (unsigned long long) alone);
            c.violation("C19:result-differs-from-single-threaded-run", buf, buf);
        }
        c.sig(mix64(0x4EA, static_cast<uint64_t>(idx) * 64 + static_cast<uint64_t>(t)));
    }
    c.count("rounds");
    c.count("rounds_with_overlapping_threads");
    c.count("heavy_rounds_with_hundreds_of_megabytes_in_flight");
    c.count("thread_workloads", static_cast<uint64_t>(T));
}

void roundCase(Ctx& c, long idx)
{
    if (idx % 16 == 7 && !getenv("VF_ROUNDS"))
        return heavyRound(c, idx);
    const int T = threadsFor(c);
    const size_t steps = stepsFor(c);
    // every other round concentrates all threads on one code path (encode+decode, decode, builders, TECMP, status, long reassembly)
    const int focus = (idx % 2 == 1) ? static_cast<int>((idx / 2) % 6) : -1;
    std::vector<uint64_t> seeds, expected(static_cast<size_t>(T)), got(static_cast<size_t>(T));
    for (int t = 0; t < T; ++t)
        seeds.push_back(mix64(mix64(c.seed, static_cast<uint64_t>(idx)), static_cast<uint64_t>(t) + 1));
    c.note("round " + std::to_string(idx) + " threads=" + std::to_string(T) + " steps=" + std::to_string(steps));
    // every fourth round the threads' objects are not fresh but copies of one used prototype (an Encoder that has sent frames,
    // a Decoder in the middle of reassemblies, a Status that knows devices), all copies made before the threads start:
    // copies are distinct objects too
    const bool copied = (idx % 4 == 2);
    wl::State protoState;
    std::vector<wl::State> copies;
    if (copied)
    {
        Rng pr(mix64(c.seed, 0xC0FFEE ^ static_cast<uint64_t>(idx)));
        wl::DigestSink ps;
        for (size_t i = 0; i < 60; ++i)
            wl::step(protoState, pr, ps, static_cast<int>(i % 6));
        for (int t = 0; t < T; ++t)
            copies.push_back(protoState);
        c.count("rounds_on_copies_of_a_used_prototype");
    }
    // concurrently first (so that lazily initialised static state, if any, is initialised under contention), then alone
    gMaxInFlight.store(0);
    Barrier b(T);
    std::vector<std::thread> th;
    for (int t = 0; t < T; ++t)
        th.emplace_back([&, t] {
            b.wait();
            got[static_cast<size_t>(t)] = runOne(seeds[static_cast<size_t>(t)], steps, true, seeds[static_cast<size_t>(t)] ^ 0x77, focus, copied ? &copies[static_cast<size_t>(t)] : nullptr);
        });
    for (auto& x : th)
        x.join();
    for (int t = 0; t < T; ++t)
        expected[static_cast<size_t>(t)] = runOne(seeds[static_cast<size_t>(t)], steps, false, 0, focus, copied ? &protoState : nullptr);
    int overlap = gMaxInFlight.load();
    for (int t = 0; t < T; ++t)
    {
        ++c.evaluations;
        if (got[static_cast<size_t>(t)] != expected[static_cast<size_t>(t)])
        {
            char buf[200];
            snprintf(buf, sizeof buf, "round %ld thread %d: digest %016llx when run concurrently with %d other threads, %016llx when run alone (workload seed %llu, %zu steps)", idx, t,
                     (unsigned long long) got[static_cast<size_t>(t)], (unsigned long long) expected[static_cast<size_t>(t)], T - 1, (unsigned long long) seeds[static_cast<size_t>(t)], steps);
            c.violation("C19:result-differs-from-single-threaded-run", buf, buf);
        }
        if (overlap >= 2)
            c.sig(seeds[static_cast<size_t>(t)]);
    }
    c.count("rounds");
    if (focus >= 0)
        c.feature("c19_focused_rounds", std::to_string(focus));
    c.count("thread_workloads", static_cast<uint64_t>(T));
    c.count("library_steps_concurrent", static_cast<uint64_t>(T) * steps);
    if (static_cast<uint64_t>(overlap) > c.counters["max_threads_simultaneously_inside_library"])
        c.counters["max_threads_simultaneously_inside_library"] = static_cast<uint64_t>(overlap);
    if (overlap >= T / 2)
        c.count("rounds_with_at_least_half_the_threads_overlapping");
    if (overlap >= 2)
        c.count("rounds_with_overlapping_threads");
    c.sample("round " + std::to_string(idx) + ": " + std::to_string(T) + " threads x " + std::to_string(steps) + " workload steps, max " + std::to_string(overlap) + " threads inside the library at once", 3);
}

long countCases(Ctx& c)
{
    if (c.prop != "C19")
        return -1;
    const char* e = getenv("VF_ROUNDS");
    if (e)
        return atol(e);
    return c.thorough() ? 240 : 32;
}

}  // namespace

int main(int argc, char** argv)
{
    return driverMain(argc, argv, countCases, roundCase);
}
