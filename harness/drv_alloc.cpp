// drv_alloc: second, hook-independent monitor for C17 - allocation accounting.
// Global operator new/delete are replaced by counting versions. (a) After a history, destroying the decoder and
// all returned packets must bring the live-byte count back to its value before the decoder was constructed.
// (b) Long traffic over ever-changing endpoints whose messages are all completed / aborted must not make the
// decoder's memory grow: live bytes at the quiescent point after N frames == after the first 10 000 frames.
#include <atomic>
#include <malloc.h>
#include <new>

#include <asam_cmp/decoder.h>

#include "dec_c17.h"
#include "driver.h"

using namespace vf;

namespace {
std::atomic<long long> gLive{0};
std::atomic<long long> gAllocs{0};
}  // namespace

void* operator new(std::size_t n)
{
    void* p = malloc(n ? n : 1);
    if (!p)
        throw std::bad_alloc();
    gLive.fetch_add(static_cast<long long>(malloc_usable_size(p)), std::memory_order_relaxed);
    gAllocs.fetch_add(1, std::memory_order_relaxed);
    return p;
}
void* operator new[](std::size_t n)
{
    return operator new(n);
}
void operator delete(void* p) noexcept
{
    if (!p)
        return;
    gLive.fetch_sub(static_cast<long long>(malloc_usable_size(p)), std::memory_order_relaxed);
    free(p);
}
void operator delete[](void* p) noexcept
{
    operator delete(p);
}
void operator delete(void* p, std::size_t) noexcept
{
    operator delete(p);
}
void operator delete[](void* p, std::size_t) noexcept
{
    operator delete(p);
}

namespace {

// (a) everything is released with the decoder
void releaseCase(Ctx& c, long idx)
{
    long long base = 0, after = 0, peak = 0;
    size_t frames = 0;
    {
        Rng r = c.caseRng(idx);
        base = gLive.load();
        {
            ASAM::CMP::Decoder dec;
            std::vector<std::shared_ptr<ASAM::CMP::Packet>> kept;
            size_t k = r.range(1, 6);
            std::vector<c17::Ep> eps;
            for (size_t i = 0; i < k; ++i)
                eps.push_back(c17::Ep{pickDevice(r), pickStream(r), static_cast<uint16_t>(r.next())});
            size_t n = r.range(5, 80);
            for (size_t i = 0; i < n; ++i)
            {
                int letter = static_cast<int>(r.below(c17::L_COUNT));
                Bytes f = c17::letterFrame(letter, eps[r.below(k)], r);
                auto got = dec.decode(f.data(), f.size());
                for (auto& p : got)
                    if (kept.size() < 20)
                        kept.push_back(p);
                ++frames;
                long long now = gLive.load();
                if (now > peak)
                    peak = now;
            }
            // the history deliberately ends with reassemblies still open on some endpoints
        }
        // rng, eps, kept, decoder are gone here
        after = gLive.load() + 0;
    }
    // `r` was a local of the inner block as well; compare
    ++c.evaluations;
    c.count("release_histories");
    c.count("frames", frames);
    if (after != base)
    {
        char buf[200];
        snprintf(buf, sizeof buf, "live heap bytes before constructing the decoder: %lld, after destroying it and every returned packet: %lld (peak %lld)", base, after, peak);
        c.violation("C17:memory-not-released-after-decoder-destroyed", buf, "random history case " + std::to_string(idx));
    }
    c.sig(mix64(static_cast<uint64_t>(idx), 1));
}

// (b) no growth with run length
void growthCase(Ctx& c, long idx)
{
    const size_t total = c.thorough() ? 1000000 : 150000;
    const size_t prefix = 10000;
    long long atPrefix = -1, atEnd = -1;
    size_t maxOpen = 0;
    {
        Rng r = c.caseRng(idx, 7);
        ASAM::CMP::Decoder dec;
        uint32_t epCounter = static_cast<uint32_t>(r.next());
        struct Open
        {
            c17::Ep ep;
            int remaining;
        };
        std::vector<Open> open;
        open.reserve(16);
        size_t sent = 0;
        auto quiesce = [&]() {
            // complete or abort everything that is open
            for (auto& o : open)
            {
                Bytes f = c17::letterFrame(r.chance(1, 2) ? c17::L_L : (r.chance(1, 2) ? c17::L_U : c17::L_X), o.ep, r);
                dec.decode(f.data(), f.size());
            }
            open.clear();
        };
        while (sent < total)
        {
            if (open.size() < 8 && r.chance(1, 2))
            {
                // a new endpoint that has never been seen before
                ++epCounter;
                Open o{c17::Ep{static_cast<uint16_t>(epCounter), static_cast<uint8_t>(epCounter >> 16), static_cast<uint16_t>(r.next())}, static_cast<int>(r.range(1, 4))};
                Bytes f = c17::letterFrame(r.chance(1, 6) ? c17::L_M : c17::L_F, o.ep, r);  // sometimes an orphan instead of a first segment
                dec.decode(f.data(), f.size());
                open.push_back(o);
            }
            else if (!open.empty())
            {
                size_t i = r.below(open.size());
                Open& o = open[i];
                int letter;
                unsigned w = static_cast<unsigned>(r.below(100));
                if (w < 8)
                    letter = c17::L_MSEQ;
                else if (w < 14)
                    letter = c17::L_MV;
                else if (w < 20)
                    letter = c17::L_X;
                else if (w < 26)
                    letter = c17::L_U;
                else
                    letter = (--o.remaining <= 0) ? c17::L_L : c17::L_M;
                Bytes f = c17::letterFrame(letter, o.ep, r);
                dec.decode(f.data(), f.size());
                if (letter != c17::L_M)
                {
                    open[i] = open.back();
                    open.pop_back();
                }
            }
            else
            {
                Bytes f = r.chance(1, 2) ? genTecmpFrame(r) : r.bytes(r.below(8));
                dec.decode(f.data(), f.size());
            }
            ++sent;
            if (open.size() > maxOpen)
                maxOpen = open.size();
            if (sent == prefix)
            {
                quiesce();
                atPrefix = gLive.load();
            }
        }
        quiesce();
        atEnd = gLive.load();
    }
    ++c.evaluations;
    c.count("growth_runs");
    c.count("frames", total);
    if (maxOpen > c.counters["max_simultaneously_open"])
        c.counters["max_simultaneously_open"] = maxOpen;
    if (atEnd != atPrefix)
    {
        char buf[240];
        snprintf(buf, sizeof buf, "live heap bytes at the quiescent point after %zu frames: %lld, after %zu frames: %lld (no message open at either point; every endpoint was used for one message only)", prefix, atPrefix, total, atEnd);
        c.violation("C17:memory-grows-with-traffic-without-open-messages", buf, "growth run case " + std::to_string(idx));
    }
    c.sig(mix64(static_cast<uint64_t>(idx), 2));
    c.sample("growth run: " + std::to_string(total) + " frames over fresh endpoints, live bytes at 10k frames " + std::to_string(atPrefix) + ", at the end " + std::to_string(atEnd), 2);
}

long countCases(Ctx& c)
{
    if (c.prop != "C17")
        return -1;
    return 16 + (c.thorough() ? 20000 : 2000);
}
void runCase(Ctx& c, long idx)
{
    if (idx < 16)
        return growthCase(c, idx);
    releaseCase(c, idx);
}

}  // namespace

int main(int argc, char** argv)
{
    return driverMain(argc, argv, countCases, runCase);
}
