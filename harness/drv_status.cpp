// drv_status: C16 - the status tracker equals a per-device, per-interface latest-message map.
// Exhaustive depth-first exploration of all operation sequences up to a bound on copies of the real Status
// object, every node compared with a reference map; plus long random sequences. ASan + UBSan flavour.
#define VF_FAILPOINT_IMPL
#include "failpoint.h"
#include <map>

#include <asam_cmp/can_payload.h>
#include <asam_cmp/capture_module_payload.h>
#include <asam_cmp/interface_payload.h>
#include <asam_cmp/decoder.h>
#include <asam_cmp/encoder.h>
#include <asam_cmp/status.h>

#include "driver.h"
#include "snapshot.h"

using namespace vf;
using ASAM::CMP::Packet;
using ASAM::CMP::Status;

namespace {

// ids chosen so that truncation to 8 / 16 bits makes two of them collide
const uint16_t kDevs[] = {1, 0x0101, 0xFFFF};
const uint32_t kIfs[] = {10, 0x0001000Au, 0xFFFFFFFFu};
const uint16_t kUnusedDev = 0x0100;
const uint32_t kUnusedIf = 0x0000FFFFu;

struct Op
{
    int kind;  // 0 update(cm,d) 1 update(if,d,i) 2 update(data,d) 3 removeDevice(d) 4 removeInterface(d,i) 5 clear
    int d, i;
};

std::vector<Op> alphabet()
{
    std::vector<Op> a;
    for (int d = 0; d < 3; ++d)
        a.push_back({0, d, 0});
    for (int d = 0; d < 3; ++d)
        for (int i = 0; i < 3; ++i)
            a.push_back({1, d, i});
    for (int d = 0; d < 3; ++d)
        a.push_back({2, d, 0});
    for (int d = 0; d < 3; ++d)
        a.push_back({3, d, 0});
    for (int d = 0; d < 3; ++d)
        for (int i = 0; i < 3; ++i)
            a.push_back({4, d, i});
    a.push_back({5, 0, 0});
    return a;
}
const std::vector<Op>& ops()
{
    static const std::vector<Op> a = alphabet();
    return a;
}

std::string opName(const Op& o)
{
    switch (o.kind)
    {
        case 0: return "update(cm,dev" + std::to_string(kDevs[o.d]) + ")";
        case 1: return "update(if,dev" + std::to_string(kDevs[o.d]) + ",if" + std::to_string(kIfs[o.i]) + ")";
        case 2: return "update(data,dev" + std::to_string(kDevs[o.d]) + ")";
        case 3: return "removeDeviceById(" + std::to_string(kDevs[o.d]) + ")";
        case 4: return "removeInterfaceById(dev" + std::to_string(kDevs[o.d]) + ",if" + std::to_string(kIfs[o.i]) + ")";
        default: return "clear()";
    }
}

struct ModelDev
{
    PacketSnap cm;
    std::map<uint32_t, PacketSnap> ifs;
};
using Model = std::map<uint16_t, ModelDev>;

// header fields a status message may legitimately carry: any common flags (a reassembled message keeps the segment bits of
// its first segment), any version / stream / counter / segment type member
void decorate(Packet& p, uint64_t ts)
{
    static const uint8_t flags[] = {0x00, 0x04, 0x08, 0x0C, 0x01, 0x02, 0x10, 0x20, 0x33, 0x3F, 0x80, 0xBF};
    p.setCommonFlags(flags[ts % 12]);
    p.setVersion(static_cast<uint8_t>(1 + ts % 3));
    p.setStreamId(static_cast<uint8_t>(ts % 5));
    p.setSequenceCounter(static_cast<uint16_t>(ts * 7));
    p.setSegmentType(static_cast<ASAM::CMP::MessageHeader::SegmentType>((ts % 4) << 2));
}

Packet cmPacket(uint16_t dev, uint64_t ts)
{
    ASAM::CMP::CaptureModulePayload pl;
    // the payload is one of six (a cyclic status message that often has not changed since the last one) while the header
    // attributes around it are different every time
    pl.setData("dev", std::to_string(ts % 3), "hw", "sw", {});
    pl.setUptime(ts % 2);
    Packet p;
    p.setPayload(pl);
    p.setDeviceId(dev);
    p.setTimestamp(ts);
    p.setVendorId(static_cast<uint16_t>(ts));
    decorate(p, ts);
    return p;
}
Packet ifPacket(uint16_t dev, uint32_t ifid, uint64_t ts)
{
    ASAM::CMP::InterfacePayload pl;
    pl.setInterfaceId(ifid);
    pl.setMsgTotalRx(static_cast<uint32_t>(ts % 3));
    uint8_t ids[3] = {1, 2, 3};
    pl.setData(ids, static_cast<uint16_t>((ts / 3) % 2), nullptr, 0);
    Packet p;
    p.setPayload(pl);
    p.setDeviceId(dev);
    p.setTimestamp(ts);
    // attributes that do not travel on the wire for a status message but are part of the packet's value
    p.setInterfaceId(ts % 2 ? ifid : static_cast<uint32_t>(ts * 2654435761u));
    p.setVendorId(static_cast<uint16_t>(ts * 40503u));
    decorate(p, ts);
    return p;
}
Packet dataPacket(uint16_t dev, uint64_t ts)
{
    ASAM::CMP::CanPayload pl;
    uint8_t d[2] = {7, 8};
    pl.setData(d, 2);
    pl.setId(static_cast<uint32_t>(ts) & 0x7FF);
    Packet p;
    p.setPayload(pl);
    p.setDeviceId(dev);
    p.setTimestamp(ts);
    return p;
}

// the packet as it arrives after travelling Encoder -> frames -> Decoder (segmented and reassembled when it does not fit a small frame)
Packet viaWire(const Packet& p, size_t max)
{
    ASAM::CMP::Encoder enc;
    enc.setDeviceId(p.getDeviceId());
    enc.setStreamId(p.getStreamId());
    ASAM::CMP::DataContext ctx;
    ctx.minBytesPerMessage = 0;
    ctx.maxBytesPerMessage = max;
    auto frames = enc.encode(p, ctx);
    ASAM::CMP::Decoder dec;
    std::shared_ptr<Packet> out;
    for (auto& f : frames)
        for (auto& q : dec.decode(f.data(), f.size()))
            out = q;
    return out ? *out : p;
}

// failAlloc >= 0: that allocation of the update call fails; an update left by std::bad_alloc never happened as far as the model
// is concerned (returns false), one that completes counts like any other
bool updateMaybeCutShort(Status& st, const Packet& p, long failAlloc)
{
    if (failAlloc < 0)
    {
        st.update(p);
        return true;
    }
    vf::fp::FailAt f(failAlloc);
    try
    {
        st.update(p);
    }
    catch (const std::bad_alloc&)
    {
        return false;
    }
    return true;
}

bool apply(Status& st, Model& m, const Op& o, uint64_t ts, long failAlloc = -1)
{
    uint16_t dev = kDevs[o.d];
    switch (o.kind)
    {
        case 0:
        {
            Packet p = cmPacket(dev, ts);
            if (ts % 5 == 2)
                p = viaWire(p, ts % 2 ? 64 : 1500);
            if (!updateMaybeCutShort(st, p, failAlloc))
                return false;
            m[dev].cm = snapPacket(p);
            break;
        }
        case 1:
        {
            Packet p = ifPacket(dev, kIfs[o.i], ts);
            if (ts % 5 == 3)
                p = viaWire(p, ts % 2 ? 64 : 1500);
            if (!updateMaybeCutShort(st, p, failAlloc))
                return false;
            auto it = m.find(dev);
            if (it != m.end())
                it->second.ifs[kIfs[o.i]] = snapPacket(p);
            break;
        }
        case 2:
        {
            Packet p = dataPacket(dev, ts);
            st.update(p);
            break;
        }
        case 3:
            st.removeDeviceById(dev);
            m.erase(dev);
            break;
        case 4:
        {
            size_t idx = st.getIndexByDeviceId(dev);
            if (idx < st.getDeviceStatusCount())
                st.getDeviceStatus(idx).removeInterfaceById(kIfs[o.i]);
            auto it = m.find(dev);
            if (it != m.end())
                it->second.ifs.erase(kIfs[o.i]);
            break;
        }
        default:
            st.clear();
            m.clear();
            break;
    }
    return true;
}

uint64_t modelHash(const Model& m)
{
    uint64_t h = 0x16;
    for (auto& d : m)
    {
        h = mix64(h, d.first);
        for (auto& i : d.second.ifs)
            h = mix64(h, i.first);
    }
    return h;
}

// full observable state of the Status object versus the model
bool compare(Ctx& c, const Status& st, const Model& m, const std::string& path)
{
    ++c.evaluations;
    char buf[300];
    bool ok = true;
    auto bad = [&](const std::string& key, const std::string& d) {
        c.violation("C16:" + key, d, "operations: " + path);
        ok = false;
    };
    size_t n = st.getDeviceStatusCount();
    if (n != m.size())
    {
        snprintf(buf, sizeof buf, "getDeviceStatusCount()=%zu, %zu devices have sent a capture module status since they were last removed", n, m.size());
        bad("device-count", buf);
    }
    for (uint16_t dev : {kDevs[0], kDevs[1], kDevs[2], kUnusedDev})
    {
        size_t idx = st.getIndexByDeviceId(dev);
        auto it = m.find(dev);
        if (it == m.end())
        {
            if (idx != n)
            {
                snprintf(buf, sizeof buf, "getIndexByDeviceId(%u)=%zu for a device without entry, element count is %zu", dev, idx, n);
                bad("lookup-of-absent-device", buf);
            }
            continue;
        }
        if (idx >= n)
        {
            snprintf(buf, sizeof buf, "getIndexByDeviceId(%u)=%zu although the device has an entry (count %zu)", dev, idx, n);
            bad("lookup-of-present-device", buf);
            continue;
        }
        const auto& ds = st.getDeviceStatus(idx);
        PacketSnap s = snapPacket(ds.getPacket());
        if (s != it->second.cm)
            bad("device-entry-is-not-latest-cm-status", "device " + std::to_string(dev) + ": stored " + s.str() + " latest " + it->second.cm.str());
        size_t ni = ds.getInterfaceStatusCount();
        if (ni != it->second.ifs.size())
        {
            snprintf(buf, sizeof buf, "device %u: getInterfaceStatusCount()=%zu, %zu interfaces seen since the device was last removed", dev, ni, it->second.ifs.size());
            bad("interface-count", buf);
        }
        for (uint32_t ifid : {kIfs[0], kIfs[1], kIfs[2], kUnusedIf})
        {
            size_t j = ds.getIndexByInterfaceId(ifid);
            auto ii = it->second.ifs.find(ifid);
            if (ii == it->second.ifs.end())
            {
                if (j != ni)
                {
                    snprintf(buf, sizeof buf, "device %u: getIndexByInterfaceId(%u)=%zu for an interface without entry, element count is %zu", dev, ifid, j, ni);
                    bad("lookup-of-absent-interface", buf);
                }
                continue;
            }
            if (j >= ni)
            {
                snprintf(buf, sizeof buf, "device %u: getIndexByInterfaceId(%u)=%zu although the interface has an entry (count %zu)", dev, ifid, j, ni);
                bad("lookup-of-present-interface", buf);
                continue;
            }
            const auto& is = ds.getInterfaceStatus(j);
            if (is.getInterfaceId() != ifid)
            {
                snprintf(buf, sizeof buf, "device %u: entry %zu found for interface %u reports interface id %u", dev, j, ifid, is.getInterfaceId());
                bad("interface-entry-id", buf);
            }
            PacketSnap si = snapPacket(is.getPacket());
            if (si != ii->second)
                bad("interface-entry-is-not-latest-if-status", "device " + std::to_string(dev) + " interface " + std::to_string(ifid) + ": stored " + si.str() + " latest " + ii->second.str());
        }
    }
    return ok;
}

struct Dfs
{
    Ctx& c;
    int maxDepth;
    uint64_t nodes = 0;
    void go(const Status& st, const Model& m, int depth, std::string& path, uint64_t tsBase)
    {
        if (depth == maxDepth)
            return;
        const auto& A = ops();
        for (size_t k = 0; k < A.size(); ++k)
        {
            Status s2 = st;  // copy of the real object: each node costs one operation + one full comparison
            Model m2 = m;
            uint64_t ts = tsBase * 31 + k + 1;
            size_t plen = path.size();
            path += opName(A[k]) + "; ";
            uint64_t before = modelHash(m);
            apply(s2, m2, A[k], ts);
            ++nodes;
            compare(c, s2, m2, path);
            c.sig(mix64(before, k));
            go(s2, m2, depth + 1, path, ts);
            path.resize(plen);
        }
    }
};

// case = a two-operation prefix (784 of them); the subtree below it is explored exhaustively
void dfsCase(Ctx& c, long idx)
{
    const auto& A = ops();
    size_t a = static_cast<size_t>(idx) / A.size(), b = static_cast<size_t>(idx) % A.size();
    Status st;
    Model m;
    std::string path = opName(A[a]) + "; ";
    c.note(path);
    apply(st, m, A[a], a + 1);
    compare(c, st, m, path);
    c.sig(mix64(0x16, a));
    path += opName(A[b]) + "; ";
    uint64_t before = modelHash(m);
    apply(st, m, A[b], (a + 1) * 31 + b + 1);
    compare(c, st, m, path);
    c.sig(mix64(before, b));
    Dfs d{c, c.thorough() ? 6 : 5};
    d.go(st, m, 2, path, (a + 1) * 31 + b + 1);
    c.count("dfs_nodes", d.nodes + (b == 0 ? 2 : 1));
    c.count("dfs_prefixes_completed");
    if (idx % 97 == 0)
        c.sample("exhaustive subtree below: " + path, 3);
}

void randomCase(Ctx& c, long idx)
{
    Rng r = c.caseRng(idx);
    Status st;
    Model m;
    std::string path;
    const auto& A = ops();
    for (int i = 0; i < 200; ++i)
    {
        // bias towards building state up, so that removals have something to remove
        size_t k = r.chance(1, 2) ? r.below(12) : r.below(A.size());
        if (path.size() > 2500)
            path = "... " + path.substr(path.size() - 1500);
        path += opName(A[k]) + "; ";
        c.note(path);
        uint64_t before = modelHash(m);
        if (A[k].kind <= 1 && r.chance(1, 8))
        {
            // the update is cut short by an allocation failure (one of its first allocations): it either never happened or
            // happened completely - a tracker that is left with half an entry answers neither way
            long at = static_cast<long>(r.below(6));
            bool done = apply(st, m, A[k], static_cast<uint64_t>(idx) * 1000 + static_cast<uint64_t>(i) + 1, at);
            path += done ? "[allocation failpoint not reached]; " : "[cut short by std::bad_alloc at allocation " + std::to_string(at) + "]; ";
            c.count(done ? "updates_whose_failpoint_was_not_reached" : "updates_cut_short_by_an_allocation_failure");
            compare(c, st, m, path);
            c.sig(mix64(before, k + 1000));
            continue;
        }
        apply(st, m, A[k], static_cast<uint64_t>(idx) * 1000 + static_cast<uint64_t>(i) + 1);
        compare(c, st, m, path);
        c.sig(mix64(before, k));
        if (i % 23 == 22 && st.getDeviceStatusCount() > 0)
        {
            // feeding the tracker one of its own stored packets (through the non-const accessors) changes nothing
            size_t di = r.below(st.getDeviceStatusCount());
            ASAM::CMP::DeviceStatus& ds = st.getDeviceStatus(di);
            Packet& own = ds.getPacket();
            st.update(own);
            if (ds.getInterfaceStatusCount() > 0)
            {
                Packet& ownIf = ds.getInterfaceStatus(r.below(ds.getInterfaceStatusCount())).getPacket();
                st.update(ownIf);
            }
            compare(c, st, m, path + "[own packets fed back]");
        }
        // a const copy and an assigned copy must show the same state
        if (i % 50 == 49)
        {
            const Status copy = st;
            compare(c, copy, m, path + "[copy]");
        }
    }
    c.count("random_sequences");
}

// deterministic: more than 256 devices / interfaces (index types, linear searches), checked with a direct model
void manyCase(Ctx& c, long j)
{
    Status st;
    std::map<uint16_t, std::map<uint32_t, uint64_t>> model;  // device -> interface -> latest ts; device ts in [0xFFFFFFFF+1]
    std::map<uint16_t, uint64_t> devTs;
    uint64_t ts = 1;
    const size_t nd = j == 0 ? 300 : 3, ni = j == 0 ? 2 : 300;
    auto check = [&](const std::string& when) {
        ++c.evaluations;
        if (st.getDeviceStatusCount() != devTs.size())
            c.violation("C16:device-count", when + ": " + std::to_string(st.getDeviceStatusCount()) + " entries, " + std::to_string(devTs.size()) + " devices known", when);
        for (auto& d : devTs)
        {
            size_t idx = st.getIndexByDeviceId(d.first);
            if (idx >= st.getDeviceStatusCount())
            {
                c.violation("C16:lookup-of-present-device", when + ": device " + std::to_string(d.first) + " not found", when);
                continue;
            }
            const auto& ds = st.getDeviceStatus(idx);
            if (ds.getPacket().getTimestamp() != d.second || ds.getPacket().getDeviceId() != d.first)
                c.violation("C16:device-entry-is-not-latest-cm-status", when + ": device " + std::to_string(d.first), when);
            auto& ifs = model[d.first];
            if (ds.getInterfaceStatusCount() != ifs.size())
                c.violation("C16:interface-count", when + ": device " + std::to_string(d.first) + " has " + std::to_string(ds.getInterfaceStatusCount()) + " entries, " + std::to_string(ifs.size()) + " interfaces known", when);
            for (auto& i : ifs)
            {
                size_t k = ds.getIndexByInterfaceId(i.first);
                if (k >= ds.getInterfaceStatusCount())
                    c.violation("C16:lookup-of-present-interface", when + ": interface " + std::to_string(i.first) + " not found", when);
                else if (ds.getInterfaceStatus(k).getInterfaceId() != i.first || ds.getInterfaceStatus(k).getPacket().getTimestamp() != i.second)
                    c.violation("C16:interface-entry-is-not-latest-if-status", when + ": interface " + std::to_string(i.first), when);
            }
        }
        if (st.getIndexByDeviceId(0xFFF0) != st.getDeviceStatusCount())
            c.violation("C16:lookup-of-absent-device", when, when);
    };
    for (size_t d = 0; d < nd; ++d)
    {
        uint16_t dev = static_cast<uint16_t>(1 + d * 7);
        st.update(cmPacket(dev, ts));
        devTs[dev] = ts++;
        for (size_t i = 0; i < ni; ++i)
        {
            uint32_t ifid = static_cast<uint32_t>(i * 65537u + d);
            st.update(ifPacket(dev, ifid, ts));
            model[dev][ifid] = ts++;
        }
        if (d % 50 == 0)
            check("while adding");
    }
    check("after adding");
    // second round of updates in another order, removals of every third device / interface
    for (size_t d = 0; d < nd; d += 2)
    {
        uint16_t dev = static_cast<uint16_t>(1 + ((d * 37) % nd) * 7);
        st.update(cmPacket(dev, ts));
        devTs[dev] = ts++;
        for (size_t i = 0; i < ni; i += 3)
        {
            uint32_t ifid = static_cast<uint32_t>(((i * 11) % ni) * 65537u + (d * 37) % nd);
            st.update(ifPacket(dev, ifid, ts));
            model[dev][ifid] = ts++;
        }
    }
    check("after second round");
    size_t k = 0;
    for (auto it = devTs.begin(); it != devTs.end(); ++k)
    {
        if (k % 3 == 0)
        {
            st.removeDeviceById(it->first);
            model.erase(it->first);
            it = devTs.erase(it);
        }
        else
        {
            auto& ifs = model[it->first];
            size_t idx = st.getIndexByDeviceId(it->first);
            size_t q = 0;
            for (auto ii = ifs.begin(); ii != ifs.end(); ++q)
            {
                if (q % 3 == 1 && idx < st.getDeviceStatusCount())
                {
                    st.getDeviceStatus(idx).removeInterfaceById(ii->first);
                    ii = ifs.erase(ii);
                }
                else
                    ++ii;
            }
            ++it;
        }
        if (k % 40 == 0)
            check("while removing");
    }
    check("after removing");
    c.sig(mix64(0x16a, static_cast<uint64_t>(j)));
    c.sig(mix64(0x16b, static_cast<uint64_t>(j)));
    c.count("many_devices_or_interfaces_cases");
}

// deterministic: status payloads longer than the 16-bit wire length can express (InterfacePayload::setData takes two 16-bit
// counts, so interface status payloads of up to 131111 bytes are ordinary objects; capture-module payloads likewise): the
// tracker owes the same latest-message map for them, in particular around the lengths where the 16-bit length wraps
void bigPayloadCase(Ctx& c)
{
    static const size_t lens[] = {65535, 65536, 65540, 65571, 65572, 70000, 131072, 131107, 131108};
    Status st;
    Model m;
    std::string path = "update(cm,dev1); ";
    uint64_t ts = 1000;
    const uint16_t dev = kDevs[0];
    {
        Packet p = cmPacket(dev, ts);
        st.update(p);
        m[dev].cm = snapPacket(p);
    }
    std::vector<uint8_t> filler(65535, 0x5C);
    for (int round = 0; round < 2; ++round)
        for (size_t k = 0; k < sizeof lens / sizeof lens[0]; ++k)
        {
            const size_t L = lens[k], rest = L - 40;
            const uint16_t ids = rest > 65535 ? 65534 : 0;
            const uint16_t vendor = static_cast<uint16_t>(rest - ids);
            const uint32_t ifid = round == 0 ? static_cast<uint32_t>(100 + k) : kIfs[k % 3];  // new interfaces, then updates of three
            ASAM::CMP::InterfacePayload pl;
            pl.setInterfaceId(ifid);
            pl.setMsgTotalRx(static_cast<uint32_t>(++ts));
            pl.setData(filler.data(), ids, filler.data(), vendor);
            Packet p;
            p.setPayload(pl);
            p.setDeviceId(dev);
            p.setTimestamp(ts);
            st.update(p);
            m[dev].ifs[ifid] = snapPacket(p);
            path += "update(if " + std::to_string(ifid) + ", payload of " + std::to_string(pl.getLength()) + " bytes); ";
            ++c.evaluations;
            // (the shared comparison looks at the small id alphabet; the entries of this case are checked here)
            size_t di = st.getIndexByDeviceId(dev);
            if (di >= st.getDeviceStatusCount())
            {
                c.violation("C16:lookup-of-present-device", "device lost", path);
                continue;
            }
            const auto& ds = st.getDeviceStatus(di);
            if (ds.getInterfaceStatusCount() != m[dev].ifs.size())
                c.violation("C16:interface-count", "getInterfaceStatusCount()=" + std::to_string(ds.getInterfaceStatusCount()) + ", " + std::to_string(m[dev].ifs.size()) + " interfaces have sent a status", path);
            size_t j = ds.getIndexByInterfaceId(ifid);
            if (j >= ds.getInterfaceStatusCount())
                c.violation("C16:lookup-of-present-interface", "interface " + std::to_string(ifid) + " (payload of " + std::to_string(L) + " bytes) has no entry", path);
            else if (snapPacket(ds.getInterfaceStatus(j).getPacket()) != m[dev].ifs[ifid])
                c.violation("C16:interface-entry-is-not-latest-if-status", "interface " + std::to_string(ifid) + " (payload of " + std::to_string(L) + " bytes): the entry does not hold the latest packet", path);
            c.count("status_payloads_longer_than_the_16_bit_wire_length");
        }
}

long countCases(Ctx& c)
{
    if (c.prop != "C16")
        return -1;
    return static_cast<long>(ops().size() * ops().size()) + 3 + (c.thorough() ? 50000 : 3000);
}
void runCase(Ctx& c, long idx)
{
    long n = static_cast<long>(ops().size() * ops().size());
    if (idx < n)
        return dfsCase(c, idx);
    if (idx < n + 2)
        return manyCase(c, idx - n);
    if (idx == n + 2)
        return bigPayloadCase(c);
    randomCase(c, idx);
}

}  // namespace

int main(int argc, char** argv)
{
    return driverMain(argc, argv, countCases, runCase);
}
