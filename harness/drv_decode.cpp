// drv_decode: decoder-side monitors for C04, C05, C06, C17, C18 (ASan + UBSan flavour, hooks on).
#define VF_FAILPOINT_IMPL
#include "failpoint.h"
#include "dec_c04.h"
#include "dec_c05.h"
#include "dec_c06.h"
#include "dec_c17.h"

using namespace vf;

// Decoder::decode owes the same answer whenever it is called: during the static initialisation of another translation unit,
// inside main(), and after main() has returned (atexit handler registered before the library was first used). A fixed set of
// frames - every kind, consistent, inconsistent and bus-error payloads - is decoded at all three moments.
static std::vector<std::string> decodeFixedSet()
{
    std::vector<std::string> out;
    Rng r(0x04C0FFEEULL);
    for (int i = 0; i < 150; ++i)
    {
        c04::FrameSpec s = c04::genSpec(r, i < K_COUNT * 3 ? i % K_COUNT : -1, static_cast<size_t>(1 + i % 3));
        Bytes f = buildFrame(s.ver, s.dev, s.mt, s.stream, s.seq, s.msgs);
        ASAM::CMP::Decoder dec;
        auto got = dec.decode(f.data(), f.size());
        std::string line = "frame=" + hex(f, 160) + " -> " + std::to_string(got.size()) + " packet(s):";
        for (auto& p : got)
            line += p ? " " + snapPacket(*p).str() : " null";
        out.push_back(line);
    }
    return out;
}
static std::string firstDifference(const std::vector<std::string>& a, const std::vector<std::string>& b)
{
    for (size_t i = 0; i < a.size() && i < b.size(); ++i)
        if (a[i] != b[i])
            return "then: " + a[i].substr(0, 1200) + " now: " + b[i].substr(0, 1200);
    return a.size() == b.size() ? "" : "different number of results";
}
static void afterMainProbe();
// (never destroyed: the atexit handler still reads it)
static const std::vector<std::string>& gDecodedBeforeMain = *new std::vector<std::string>((lateReport(), atexit(afterMainProbe), probeInChild(decodeFixedSet)));
static void afterMainProbe()
{
    if (lateReport().prop != "C04" || lateReport().shard != 0)
        return;
    std::string d = firstDifference(gDecodedBeforeMain, decodeFixedSet());
    if (!d.empty())
        lateViolation("C04:result-of-a-call-after-main-returned-differs", "decoded during static initialisation / after main() returned: " + d);
}
static void outsideMainCase(Ctx& c)
{
    auto now = decodeFixedSet();
    std::string d = probeDied(gDecodedBeforeMain);
    if (d.empty())
        d = firstDifference(gDecodedBeforeMain, now);
    ++c.evaluations;
    c.count("frames_also_decoded_before_and_after_main", now.size());
    if (!d.empty())
        c.violation("C04:result-of-a-call-before-main-differs", "decoded during static initialisation / inside main(): " + d, "fixed set of 150 frames");
}

static long countCases(Ctx& c)
{
    if (c.prop == "C04") return c04::count(c);
    if (c.prop == "C05") return c05::count(c);
    if (c.prop == "C06") return c06::count(c);
    if (c.prop == "C17") return c17::count(c);
    if (c.prop == "C18") return c18::count(c);
    return -1;
}

static void runCase(Ctx& c, long idx)
{
    if (c.prop == "C04" && idx == 0) outsideMainCase(c);
    if (c.prop == "C04") c04::run(c, idx);
    else if (c.prop == "C05") c05::run(c, idx);
    else if (c.prop == "C06") c06::run(c, idx);
    else if (c.prop == "C17") c17::run(c, idx);
    else if (c.prop == "C18") c18::run(c, idx);
}

int main(int argc, char** argv)
{
    return driverMain(argc, argv, countCases, runCase);
}
