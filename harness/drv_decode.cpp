// drv_decode: decoder-side monitors for C04, C05, C06, C17, C18 (ASan + UBSan flavour, hooks on).
#include "dec_c04.h"
#include "dec_c05.h"
#include "dec_c06.h"
#include "dec_c17.h"

using namespace vf;

static long countCases(Ctx& c)
{
    if (c.prop == "C04") return c04::count(c);
    if (c.prop == "C05") return c05::count(c);
    if (c.prop == "C06") return c06::count(c);
    if (c.prop == "C17") return c17::count(c);
    if (c.prop == "C18") return c18::count(c);
    return -1;
}

static void runCase(Ctx& c, long idx)
{
    if (c.prop == "C04") c04::run(c, idx);
    else if (c.prop == "C05") c05::run(c, idx);
    else if (c.prop == "C06") c06::run(c, idx);
    else if (c.prop == "C17") c17::run(c, idx);
    else if (c.prop == "C18") c18::run(c, idx);
}

int main(int argc, char** argv)
{
    return driverMain(argc, argv, countCases, runCase);
}
