// drv_uninit: C20 - outputs never contain or depend on uninitialised memory.
// Two monitors over the same seeded workload (harness/common/workload.h):
//  1. definedness: run under valgrind memcheck; every output byte / getter value is checked with
//     VALGRIND_CHECK_MEM_IS_DEFINED (client request); "conditional jump depends on uninitialised value"
//     errors with a library frame are picked up from the valgrind log by the orchestrator.
//  2. differential fill: global operator new fills fresh blocks with a pattern P and operator delete scribbles
//     freed blocks with ~P; every case runs with P=0xA5 and P=0x3C in one process, digests must be equal;
//     the binary is built with -ftrivial-auto-var-init=zero and =pattern, per-shard digest folds must agree.
#include <malloc.h>
#include <new>

#include <valgrind/memcheck.h>

#include "driver.h"
#include "workload.h"

using namespace vf;

namespace {
volatile int gFillEnabled = 0;
volatile unsigned char gFill = 0xA5;
volatile long gFailCountdown = -1;  // >= 0: that many allocations still succeed, the next one throws std::bad_alloc (once)
void armFailure(long k)
{
    gFailCountdown = k;
}
}  // namespace

void* operator new(std::size_t n)
{
    if (gFailCountdown >= 0)
    {
        if (gFailCountdown == 0)
        {
            gFailCountdown = -1;
            throw std::bad_alloc();
        }
        gFailCountdown = gFailCountdown - 1;
    }
    void* p = malloc(n ? n : 1);
    if (!p)
        throw std::bad_alloc();
    if (gFillEnabled)
        memset(p, gFill, n);
    return p;
}
void* operator new[](std::size_t n)
{
    return operator new(n);
}
void operator delete(void* p) noexcept
{
    if (!p)
        return;
    if (gFillEnabled)
    {
        memset(p, static_cast<unsigned char>(~gFill), malloc_usable_size(p));
        // without this barrier the compiler removes the store as dead (the block is freed next)
        __asm__ __volatile__("" : : "r"(p) : "memory");
    }
    free(p);
}
void operator delete[](void* p) noexcept
{
    operator delete(p);
}
void operator delete(void* p, std::size_t) noexcept
{
    operator delete(p);
}
void operator delete[](void* p, std::size_t) noexcept
{
    operator delete(p);
}

namespace {

struct CheckSink : wl::DigestSink
{
    Ctx& c;
    std::string where;
    uint64_t checks = 0;
    explicit CheckSink(Ctx& c_)
        : c(c_)
    {
    }
    void bytes(const char* what, const uint8_t* p, size_t n) override
    {
        ++checks;
        if (n)
        {
            unsigned long bad = VALGRIND_CHECK_MEM_IS_DEFINED(p, n);
            if (bad)
            {
                size_t off = static_cast<size_t>(bad - reinterpret_cast<unsigned long>(p));
                // make the value defined before it is read for the report
                std::vector<uint8_t> copy(p, p + n);
                (void) VALGRIND_MAKE_MEM_DEFINED(copy.data(), copy.size());
                char buf[200];
                snprintf(buf, sizeof buf, "output '%s' (%zu bytes) contains an undefined byte at offset %zu (during %s)", what, n, off, where.c_str());
                c.violation(std::string("C20:undefined-output-byte:") + what, buf, std::string(what) + "=" + hex(copy.data(), copy.size(), 200));
                return;  // do not fold undefined bytes into the digest
            }
        }
        wl::DigestSink::bytes(what, p, n);
    }
};

constexpr size_t kSteps = 6;

uint64_t runCaseOnce(Ctx& c, long idx, wl::Sink& sink, std::string* labels, std::string* whereOut)
{
    wl::State st;
    Rng r = c.caseRng(idx, 0x20);
    for (size_t i = 0; i < kSteps; ++i)
    {
        std::string l = wl::step(st, r, sink);
        if (whereOut)
            *whereOut = l;
        if (labels)
        {
            if (!labels->empty())
                *labels += ",";
            *labels += l;
        }
    }
    return 0;
}

uint64_t gFold = 0x20;

// The same fixed workload run during static initialisation (this translation unit is linked in front of the library, so
// its initialisers run before the library's) and again inside case 0: a library object with dynamic initialisation that
// is used before it has been constructed is state that has not been initialised yet.
uint64_t fixedWorkloadDigest()
{
    wl::armAllocationFailure() = armFailure;  // (set here as well: this runs before main())
    wl::State st;
    wl::DigestSink s;
    Rng r(0x20C0FFEEULL);
    for (int i = 0; i < 600; ++i)
        wl::step(st, r, s, i % 6);
    return s.h ^ (s.count << 1);
}
const uint64_t gDigestBeforeMain = fixedWorkloadDigest();

void caseFn(Ctx& c, long idx)
{
    c.note("workload case " + std::to_string(idx) + " seed " + std::to_string(c.seed));
    if (idx == 0)
    {
        const uint64_t now = fixedWorkloadDigest();
        ++c.evaluations;
        c.count("workload_steps_also_run_before_main", 600);
        if (now != gDigestBeforeMain)
        {
            char buf[200];
            snprintf(buf, sizeof buf, "a fixed workload of 600 steps gives output digest %016llx when run during static initialisation and %016llx when run from main()",
                     (unsigned long long) gDigestBeforeMain, (unsigned long long) now);
            c.violation("C20:outputs-depend-on-when-the-library-is-called", buf, "fixed workload, seed 0x20C0FFEE");
        }
    }
    if (RUNNING_ON_VALGRIND)
    {
        CheckSink s(c);
        std::string labels;
        wl::State st;
        Rng r = c.caseRng(idx, 0x20);
        for (size_t i = 0; i < kSteps; ++i)
        {
            s.where = "workload step " + std::to_string(i);
            std::string l = wl::step(st, r, s);
            c.sig(hashStr(l));
            c.feature("c20_generators_under_memcheck", l);
        }
        ++c.evaluations;
        c.count("memcheck_client_checks", s.checks);
        c.count("memcheck_output_bytes_checked", s.count);
        c.count("memcheck_cases");
        return;
    }
    // differential fill
    uint64_t d[2];
    std::string labels;
    static const unsigned char pat[2] = {0xA5, 0x3C};
    for (int k = 0; k < 2; ++k)
    {
        wl::DigestSink s;
        gFill = pat[k];
        gFillEnabled = 1;
        runCaseOnce(c, idx, s, k == 0 ? &labels : nullptr, nullptr);
        gFillEnabled = 0;
        d[k] = s.h ^ (s.count << 1);
        if (k == 0)
            c.count("differential_output_bytes", s.count);
    }
    ++c.evaluations;
    if (d[0] != d[1])
    {
        char buf[200];
        snprintf(buf, sizeof buf, "case %ld: output digest %016llx with fresh heap blocks filled with 0xA5, %016llx with 0x3C", idx, (unsigned long long) d[0], (unsigned long long) d[1]);
        c.violation("C20:outputs-depend-on-prior-heap-contents", buf, "workload: " + labels);
    }
    gFold = mix64(gFold, d[0]);
    c.sig(hashStr(labels));
    c.count("differential_cases");
    if (c.samples.size() < 3)
        c.sample("case " + std::to_string(idx) + ": " + labels, 3);
}

long countCases(Ctx& c)
{
    if (c.prop != "C20")
        return -1;
    if (RUNNING_ON_VALGRIND)
        return c.thorough() ? 200000 : 6400;
    return c.thorough() ? 10000000 : 160000;
}

}  // namespace

int main(int argc, char** argv)
{
    // self-test of the monitors (development aid): VF_SELFTEST_UNINIT=1 emits a deliberately uninitialised heap byte
    wl::armAllocationFailure() = armFailure;
    int rc = driverMain(argc, argv, countCases, [](Ctx& c, long idx) {
        caseFn(c, idx);
        if (getenv("VF_SELFTEST_UNINIT") && idx < 16)
        {
            uint8_t* raw = new uint8_t[8];
            if (RUNNING_ON_VALGRIND)
            {
                CheckSink s(c);
                s.where = "self test";
                s.bytes("selftest.raw", raw, 8);
            }
            else
            {
                uint64_t d[2];
                for (int k = 0; k < 2; ++k)
                {
                    gFill = k ? 0x3C : 0xA5;
                    gFillEnabled = 1;
                    uint8_t* x = new uint8_t[8];
                    d[k] = hashBytes(x, 8);
                    delete[] x;
                    gFillEnabled = 0;
                }
                if (d[0] != d[1])
                    c.violation("C20:outputs-depend-on-prior-heap-contents", "self test", "self test");
            }
            delete[] raw;
        }
        // the last case of the shard publishes the fold of all case digests (compared across the stack-init flavours)
        char b[32];
        snprintf(b, sizeof b, "%ld:%016llx", c.shard, (unsigned long long) gFold);
        c.featureSets["case_digest_fold"].clear();
        c.featureSets["case_digest_fold"].insert(b);
    });
    return rc;
}
