// drv_codec: encoder-side monitors. One execution of Encoder::encode feeds five oracles:
//   C07 independent frame walker + byte conservation        C08 layout == reference layout model
//   C09 header identity / consecutive counters (shadow)      C10 used encoder == fresh encoder (mod counter offset)
//   C01 decode(encode(batch)) == batch (snapshot comparison, wire-level header comparison)
// Each check (--prop) reports only violations of its own property; ASan/UBSan watch every execution.
#define VF_FAILPOINT_IMPL
#include "failpoint.h"
#include <deque>
#include <forward_list>
#include <list>
#include <memory>
#include <sstream>
#include <stdexcept>

#include <asam_cmp/analog_payload.h>
#include <asam_cmp/can_fd_payload.h>
#include <asam_cmp/can_payload.h>
#include <asam_cmp/capture_module_payload.h>
#include <asam_cmp/decoder.h>
#include <asam_cmp/encoder.h>
#include <asam_cmp/ethernet_payload.h>
#include <asam_cmp/interface_payload.h>
#include <asam_cmp/lin_payload.h>

#include "driver.h"
#include "gen.h"
#include "ref_encoder.h"
#include "snapshot.h"
#include "wire.h"

using namespace vf;
using ASAM::CMP::DataContext;
using ASAM::CMP::Decoder;
using ASAM::CMP::Encoder;
using ASAM::CMP::Packet;
using ASAM::CMP::Payload;
using ASAM::CMP::PayloadType;
using wire::Bytes;

namespace {

template <typename D>
std::unique_ptr<D> cloneIfCopyable(const D& d)
{
#ifndef VF_NO_DECODER_COPY
    if constexpr (std::is_copy_constructible_v<D>)
        return std::make_unique<D>(d);
    else
        return nullptr;
#else
    (void) d;
    return nullptr;
#endif
}

struct PktDesc
{
    Kind kind = K_GEN_DATA;
    uint8_t msgType = 1, ptype = 0x10;
    Bytes payload;
    uint64_t ts = 0;
    uint32_t ifid = 0;
    uint16_t vendor = 0;
    uint8_t flags = 0;
    uint8_t version = 1;
    uint16_t pktSeq = 0;  // Packet::setSequenceCounter value (must not matter)
    uint16_t pktDev = 0;  // Packet::setDeviceId value (the encoder's id must win)
    uint8_t pktStream = 0;
    bool typedCtor = false;
    int retype = 0;  // 1..3: the packet is first given a payload of another type and re-typed through getPayload() afterwards
    bool viaCopy = false;  // the packet handed to the encoder is a copy of the one that was built
    bool keepHeader = false;  // kept objects only: the object keeps its header fields, nothing but the payload data is edited (in place)
    int viaRef = 0;  // kept objects only (with keepHeader): the payload is replaced (1) or re-typed (2 payload type, 3 message type)
                     // through the Payload reference obtained before the previous encode; no Packet member is called
};

struct Batch
{
    std::vector<PktDesc> pkts;
    Config cfg;
    int overload = 0;  // 0 vector<Packet>, 1 forward_list<Packet>, 2 vector<shared_ptr<Packet>>, 3 single packet
};

std::string describe(const Batch& b, uint16_t dev, uint8_t stream)
{
    std::ostringstream s;
    s << "encoder{dev=" << dev << ",stream=" << unsigned(stream) << "} ctx{min=" << b.cfg.min << ",max=" << b.cfg.max
      << "} overload=" << b.overload << " packets=[";
    for (size_t i = 0; i < b.pkts.size(); ++i)
    {
        const auto& p = b.pkts[i];
        if (i)
            s << ", ";
        if (i >= 24)
        {
            s << "... (" << b.pkts.size() << " packets)";
            break;
        }
        s << kindName(p.kind) << "{mt=" << unsigned(p.msgType) << ",pt=" << unsigned(p.ptype) << ",len=" << p.payload.size()
          << ",ver=" << unsigned(p.version) << ",flags=0x" << std::hex << unsigned(p.flags) << std::dec << ",ts=" << p.ts
          << ",if=" << p.ifid << ",vendor=" << p.vendor << ",bytes=" << hex(p.payload, 24) << "}";
    }
    s << "]";
    return s.str();
}

Packet makePacket(const PktDesc& d)
{
    Packet p;
    const uint8_t* data = d.payload.data();
    const size_t n = d.payload.size();
    if (d.typedCtor)
    {
        switch (d.kind)
        {
            case K_CAN: p.setPayload(ASAM::CMP::CanPayload(data, n)); break;
            case K_CANFD: p.setPayload(ASAM::CMP::CanFdPayload(data, n)); break;
            case K_LIN: p.setPayload(ASAM::CMP::LinPayload(data, n)); break;
            case K_ANALOG: p.setPayload(ASAM::CMP::AnalogPayload(data, n)); break;
            case K_ETH: p.setPayload(ASAM::CMP::EthernetPayload(data, n)); break;
            case K_CM: p.setPayload(ASAM::CMP::CaptureModulePayload(data, n)); break;
            case K_IF: p.setPayload(ASAM::CMP::InterfacePayload(data, n)); break;
            default: p.setPayload(Payload(PayloadType(static_cast<ASAM::CMP::CmpHeader::MessageType>(d.msgType), d.ptype), data, n));
        }
    }
    else if (d.kind == K_ETH && d.viaCopy && n >= 6 && wire::get16(data + 4) == n - 6)
    {
        // the in-place editing idiom of the library's own example: the packet first gets a LONGER Ethernet payload, which is
        // then edited through the reference from getPayload() (setData with the final, shorter data, then the flags)
        ASAM::CMP::EthernetPayload e;
        std::vector<uint8_t> longer(n - 6 + 1 + (d.ts % 300), 0xAB);
        e.setData(longer.data(), static_cast<uint16_t>(std::min<size_t>(longer.size(), 65529)));
        p.setPayload(e);
        auto& ep = static_cast<ASAM::CMP::EthernetPayload&>(p.getPayload());
        ep.setData(data + 6, static_cast<uint16_t>(n - 6));
        ep.setFlags(wire::get16(data));
    }
    else if (d.retype)
    {
        // two public calls that are each fine alone: setPayload with some type, later the type is changed in place
        using MT = ASAM::CMP::CmpHeader::MessageType;
        uint8_t otherMt = d.msgType == 1 ? 3 : 1;
        uint8_t otherPt = static_cast<uint8_t>(d.ptype ^ 0x40);
        if (otherPt == 0)
            otherPt = 0x41;
        if (d.retype == 1)
        {
            p.setPayload(Payload(PayloadType(static_cast<MT>(otherMt), d.ptype), data, n));
            p.getPayload().setMessageType(static_cast<MT>(d.msgType));
        }
        else if (d.retype == 2)
        {
            p.setPayload(Payload(PayloadType(static_cast<MT>(d.msgType), otherPt), data, n));
            p.getPayload().setRawPayloadType(d.ptype);
        }
        else
        {
            p.setPayload(Payload(PayloadType(static_cast<MT>(otherMt), otherPt), data, n));
            p.getPayload().setType(PayloadType(static_cast<MT>(d.msgType), d.ptype));
        }
    }
    else
        p.setPayload(Payload(PayloadType(static_cast<ASAM::CMP::CmpHeader::MessageType>(d.msgType), d.ptype), data, n));
    p.setTimestamp(d.ts);
    p.setInterfaceId(d.ifid);
    p.setVendorId(d.vendor);
    p.setCommonFlags(d.flags);
    p.setVersion(d.version);
    p.setSequenceCounter(d.pktSeq);
    p.setDeviceId(d.pktDev);
    p.setStreamId(d.pktStream);
    if (d.viaCopy)
    {
        Packet q(p);
        Packet t;
        t = q;
        return t;
    }
    return p;
}

PktDesc genPkt(Rng& r, Kind k, size_t len, uint8_t version)
{
    PktDesc d;
    d.kind = k;
    d.msgType = kindMsgType(k, r);
    d.ptype = kindPayloadType(k, r);
    d.payload = genPayload(k, len, r);
    d.ts = r.chance(1, 8) ? r.pick<uint64_t>({0, 1, 0xFFFFFFFFFFFFFFFFULL, 0x8000000000000000ULL}) : r.next();
    d.ifid = r.chance(1, 8) ? r.pick<uint32_t>({0, 1, 0xFFFFFFFFu, 0x0000FFFFu, 0xFFFF0000u}) : static_cast<uint32_t>(r.next());
    d.vendor = r.chance(1, 8) ? r.pick<uint16_t>({0, 1, 0xFFFF, 0x00FF, 0xFF00}) : static_cast<uint16_t>(r.next());
    d.flags = static_cast<uint8_t>(r.next()) & static_cast<uint8_t>(~wire::CF_ERROR);
    if (r.chance(1, 2))
        d.flags &= static_cast<uint8_t>(~wire::CF_SEG);  // user-set segment bits are legal but rarer
    d.version = version;
    d.pktSeq = static_cast<uint16_t>(r.next());
    d.pktDev = static_cast<uint16_t>(r.next());
    d.pktStream = r.byte();
    d.typedCtor = r.chance(1, 3);
    if (!d.typedCtor && r.chance(1, 5))
        d.retype = static_cast<int>(r.range(1, 3));
    d.viaCopy = r.chance(1, 6);
    return d;
}

Kind genKind(Rng& r, int typeMode)
{
    // typeMode 0: data only, 1: status only, 2: anything
    static const Kind data[] = {K_CAN, K_CANFD, K_LIN, K_ANALOG, K_ETH, K_GEN_DATA, K_ETH, K_GEN_DATA};
    static const Kind status[] = {K_CM, K_IF, K_GEN_STATUS};
    static const Kind any[] = {K_CAN, K_CANFD, K_LIN, K_ANALOG, K_ETH, K_CM, K_IF, K_GEN_DATA, K_GEN_STATUS, K_CONTROL, K_VENDOR, K_OTHER_MT};
    if (typeMode == 0)
        return data[r.below(8)];
    if (typeMode == 1)
        return status[r.below(3)];
    return any[r.below(12)];
}

// random batch whose lengths are aimed at the fit / no-fit boundaries of the running reference layout
Batch genBatch(Rng& r, size_t maxPackets, bool allowHuge, bool allowUndefinedType = false, bool allowEmptyPayload = false)
{
    Batch b;
    b.cfg = genConfig(r);
    const size_t n = r.chance(1, 6) ? 1 : r.range(1, maxPackets);
    const uint8_t version = r.chance(1, 4) ? r.pick<uint8_t>({1, 2, 255, 0x80}) : static_cast<uint8_t>(r.range(1, 255));
    int typeMode = static_cast<int>(r.below(3));
    const size_t cap = b.cfg.max - 8;
    size_t used = 0;  // message bytes in the frame the reference model would currently have open (0: none)
    uint8_t curType = 0;
    bool huge = false;
    for (size_t i = 0; i < n; ++i)
    {
        Kind k = genKind(r, typeMode);
        if (typeMode == 2 && i > 0 && r.chance(1, 2))
            k = b.pkts.back().kind;  // runs of equal type so that aggregation happens in mixed batches too
        size_t remaining = used ? cap - used : 0;
        size_t len = genLen(r, b.cfg.max, remaining, allowHuge && !huge);
        if (len > 60000)
            huge = true;
        // Ethernet and generic kinds take any length; typed kinds are bumped to their minimum
        if (kindMinLen(k) > len && r.chance(1, 2))
            k = (kindMsgType(k, r) == wire::MT_STATUS) ? K_GEN_STATUS : K_GEN_DATA;
        PktDesc d = genPkt(r, k, len, version);
        if (allowUndefinedType && r.chance(1, 12))
        {
            d.kind = K_OTHER_MT;
            d.msgType = 0;  // message type 'undefined': legal for the frame-level properties, outside C01's domain
            d.typedCtor = false;
        }
        if (allowEmptyPayload && r.chance(1, 8))
        {
            // a packet whose payload is empty (only C09 quantifies over batches without a length restriction): nothing of it goes
            // onto the wire, but it may make the encoder open a frame
            d.kind = (d.msgType == wire::MT_STATUS) ? K_GEN_STATUS : (d.msgType == wire::MT_DATA ? K_GEN_DATA : d.kind);
            if (kindIsTyped(d.kind))
                d.kind = K_GEN_DATA, d.msgType = wire::MT_DATA;
            d.ptype = 0x3A;
            d.payload.clear();
            d.typedCtor = false;
            d.retype = 0;
        }
        // mirror the reference model to know the remaining space for the next packet
        size_t need = 16 + d.payload.size();
        if (need > cap)
            used = 0;
        else if (used && curType == d.msgType && used + need <= cap)
            used += need;
        else
        {
            used = need;
            curType = d.msgType;
        }
        b.pkts.push_back(std::move(d));
    }
    b.overload = static_cast<int>(r.below(8));
    if (b.overload == 3 && b.pkts.size() != 1)
        b.overload = 0;
    return b;
}

// a caller's forward iterator that does real work when it is dereferenced: it runs ANOTHER encoder (other ids, other
// version, other message type, same frame size) to completion - CMP tunnelled in CMP builds its outer packets lazily from
// an inner encoder's frames this way. The two encode() calls nest on one thread; they are separate objects.
struct NestingIt
{
    using iterator_category = std::forward_iterator_tag;
    using value_type = Packet;
    using difference_type = std::ptrdiff_t;
    using pointer = const Packet*;
    using reference = const Packet&;
    const std::vector<Packet>* v = nullptr;
    size_t i = 0;
    Encoder* inner = nullptr;
    const Packet* probe = nullptr;
    DataContext ctx;
    mutable size_t lastNested = static_cast<size_t>(-1);
    reference operator*() const
    {
        if (inner && lastNested != i)
        {
            lastNested = i;
            inner->encode(*probe, ctx);
        }
        return (*v)[i];
    }
    NestingIt& operator++()
    {
        ++i;
        return *this;
    }
    NestingIt operator++(int)
    {
        NestingIt t = *this;
        ++i;
        return t;
    }
    bool operator==(const NestingIt& o) const
    {
        return i == o.i;
    }
    bool operator!=(const NestingIt& o) const
    {
        return i != o.i;
    }
};

std::vector<std::vector<uint8_t>> runEncode(Encoder& enc, const Batch& b)
{
    DataContext ctx;
    ctx.minBytesPerMessage = b.cfg.min;
    ctx.maxBytesPerMessage = b.cfg.max;
    switch (b.overload)
    {
        case 1:
        {
            std::forward_list<Packet> l;
            auto it = l.before_begin();
            for (auto& d : b.pkts)
                it = l.insert_after(it, makePacket(d));
            return enc.encode(l.begin(), l.end(), ctx);
        }
        case 2:
        {
            std::vector<std::shared_ptr<Packet>> v;
            for (auto& d : b.pkts)
                v.push_back(std::make_shared<Packet>(makePacket(d)));
            return enc.encode(v.begin(), v.end(), ctx);
        }
        case 3:
            if (b.pkts.size() == 1)
            {
                Packet p = makePacket(b.pkts[0]);
                return enc.encode(p, ctx);
            }
            [[fallthrough]];
        case 4:
        {
            std::deque<Packet> q;
            for (auto& d : b.pkts)
                q.push_back(makePacket(d));
            return enc.encode(q.begin(), q.end(), ctx);
        }
        case 5:
        {
            // raw pointers are iterators too
            std::vector<Packet> v;
            for (auto& d : b.pkts)
                v.push_back(makePacket(d));
            const Packet* first = v.data();
            return enc.encode(first, first + v.size(), ctx);
        }
        case 7:
        {
            std::vector<Packet> v;
            for (auto& d : b.pkts)
                v.push_back(makePacket(d));
            Encoder inner;
            inner.setDeviceId(0x5A5A);
            inner.setStreamId(0xA5);
            static const uint8_t pl[] = {1, 2, 3, 4, 5, 6, 7, 8, 9};
            Packet probe;
            probe.setPayload(Payload(PayloadType(ASAM::CMP::CmpHeader::MessageType::status, 0x7E), pl, sizeof pl));
            probe.setVersion(77);
            probe.setVendorId(0xBEEF);
            NestingIt first, last;
            first.v = last.v = &v;
            first.inner = &inner;
            first.probe = &probe;
            first.ctx = ctx;
            last.i = v.size();
            return enc.encode(first, last, ctx);
        }
        case 6:
        {
            std::list<std::shared_ptr<Packet>> l;
            for (auto& d : b.pkts)
                l.push_back(std::make_shared<Packet>(makePacket(d)));
            return enc.encode(l.cbegin(), l.cend(), ctx);
        }
        default:
        {
            std::vector<Packet> v;
            v.reserve(b.pkts.size());
            for (auto& d : b.pkts)
                v.push_back(makePacket(d));
            return enc.encode(v.begin(), v.end(), ctx);
        }
    }
}

// -------------------------------------------------------------------------------------------------
// Frame walker (independent of library code): parses frames, maps messages to packets structurally.

struct WMsg
{
    size_t frame;
    size_t off;  // offset of the message header in the frame
    wire::MsgHdr h;
};

struct Walk
{
    bool structureOk = true;  // every frame parsed into >=1 complete message + zero padding
    bool mapped = false;      // messages map structurally (flags, lengths) onto the packets in order
    std::vector<WMsg> msgs;
    std::vector<size_t> frameEnd;  // end offset of the last message per frame
    Layout actual;                 // valid if mapped
};

struct Reporter
{
    Ctx& c;
    const std::string& input;
    void v(const char* prop, const std::string& key, const std::string& detail)
    {
        if (c.prop == prop)
            c.violation(key, detail, input);
    }
};

Walk walkFrames(Reporter& rep, const Batch& b, const std::vector<std::vector<uint8_t>>& frames)
{
    Walk w;
    char buf[256];
    for (size_t fi = 0; fi < frames.size(); ++fi)
    {
        const auto& f = frames[fi];
        size_t end = wire::kCmpHeader;
        if (f.size() < wire::kCmpHeader)
        {
            snprintf(buf, sizeof buf, "frame %zu has %zu bytes", fi, f.size());
            rep.v("C07", "C07:frame-shorter-than-cmp-header", buf);
            w.structureOk = false;
            w.frameEnd.push_back(f.size());
            continue;
        }
        if (f.size() > b.cfg.max)
        {
            snprintf(buf, sizeof buf, "frame %zu has %zu bytes > max %zu", fi, f.size(), b.cfg.max);
            rep.v("C07", "C07:frame-above-max", buf);
        }
        if (f.size() < b.cfg.min)
        {
            snprintf(buf, sizeof buf, "frame %zu has %zu bytes < min %zu", fi, f.size(), b.cfg.min);
            rep.v("C07", "C07:frame-below-min", buf);
        }
        size_t off = wire::kCmpHeader;
        size_t count = 0;
        while (off < f.size())
        {
            if (f.size() - off < wire::kMsgHeader || f[off + 13] == 0)
                break;  // padding starts here (all domain packets have a non-zero payload type byte)
            wire::MsgHdr h = wire::parseMsgHdr(f.data() + off);
            if (off + wire::kMsgHeader + h.len > f.size())
            {
                snprintf(buf, sizeof buf, "frame %zu: message at offset %zu declares %u payload bytes, frame has %zu", fi, off, h.len, f.size());
                rep.v("C07", "C07:message-overruns-frame", buf);
                w.structureOk = false;
                break;
            }
            w.msgs.push_back({fi, off, h});
            ++count;
            off += wire::kMsgHeader + h.len;
            end = off;
        }
        w.frameEnd.push_back(end);
        if (count == 0)
        {
            snprintf(buf, sizeof buf, "frame %zu (%zu bytes) carries no complete message", fi, f.size());
            rep.v("C07", "C07:frame-without-message", buf);
            w.structureOk = false;
        }
        // remainder = padding
        bool zero = true;
        for (size_t i = end; i < f.size(); ++i)
            if (f[i] != 0)
                zero = false;
        if (!zero)
        {
            snprintf(buf, sizeof buf, "frame %zu: bytes after the last message (offset %zu..%zu) are not all zero", fi, end, f.size());
            rep.v("C07", "C07:nonzero-bytes-after-last-message", buf);
            w.structureOk = false;
        }
        if (f.size() > end && count > 0)
        {
            if (end >= b.cfg.min)
            {
                snprintf(buf, sizeof buf, "frame %zu: %zu padding bytes although messages already reach %zu >= min %zu", fi, f.size() - end, end, b.cfg.min);
                rep.v("C07", "C07:padding-not-needed", buf);
            }
            else if (f.size() != b.cfg.min)
            {
                snprintf(buf, sizeof buf, "frame %zu: padded to %zu, min is %zu", fi, f.size(), b.cfg.min);
                rep.v("C07", "C07:padding-beyond-min", buf);
            }
        }
    }
    if (b.pkts.empty() && !frames.empty())
    {
        snprintf(buf, sizeof buf, "empty batch produced %zu frames", frames.size());
        rep.v("C07", "C07:empty-batch-produced-frames", buf);
    }

    // structural mapping messages -> packets (flags and lengths only)
    size_t mi = 0;
    bool ok = true;
    std::string why;
    w.actual.resize(frames.size());
    for (size_t fi = 0; fi < frames.size(); ++fi)
        w.actual[fi].msgType = frames[fi].size() >= 8 ? frames[fi][4] : 0;
    for (size_t p = 0; p < b.pkts.size() && ok; ++p)
    {
        const size_t L = b.pkts[p].payload.size();
        if (mi >= w.msgs.size())
        {
            ok = false;
            why = "no message left for packet " + std::to_string(p);
            break;
        }
        uint8_t seg = w.msgs[mi].h.seg();
        if (seg == wire::SEG_NONE)
        {
            if (w.msgs[mi].h.len != L)
            {
                ok = false;
                why = "unsegmented message for packet " + std::to_string(p) + " declares " + std::to_string(w.msgs[mi].h.len) + " bytes, packet has " + std::to_string(L);
                break;
            }
            w.actual[w.msgs[mi].frame].items.push_back({p, seg, 0, L});
            ++mi;
        }
        else if (seg == wire::SEG_FIRST)
        {
            size_t off = 0;
            bool first = true;
            while (true)
            {
                if (mi >= w.msgs.size())
                {
                    ok = false;
                    why = "segment run of packet " + std::to_string(p) + " is not terminated by a last segment";
                    break;
                }
                uint8_t s = w.msgs[mi].h.seg();
                if (first ? s != wire::SEG_FIRST : (s != wire::SEG_MID && s != wire::SEG_LAST))
                {
                    ok = false;
                    why = "unexpected segment flag " + std::to_string(s) + " inside the run of packet " + std::to_string(p);
                    break;
                }
                w.actual[w.msgs[mi].frame].items.push_back({p, s, off, w.msgs[mi].h.len});
                off += w.msgs[mi].h.len;
                ++mi;
                first = false;
                if (s == wire::SEG_LAST)
                    break;
            }
            if (ok && off != L)
            {
                ok = false;
                why = "segments of packet " + std::to_string(p) + " sum to " + std::to_string(off) + " bytes, packet has " + std::to_string(L);
            }
        }
        else
        {
            ok = false;
            why = "packet " + std::to_string(p) + " starts with segment flag " + std::to_string(seg);
        }
    }
    if (ok && mi != w.msgs.size())
    {
        ok = false;
        why = std::to_string(w.msgs.size() - mi) + " surplus messages after the last packet";
    }
    w.mapped = ok;
    if (!ok)
    {
        rep.v("C07", "C07:messages-do-not-tile-packets", why);
        rep.v("C08", "C08:layout-unmappable", why);
    }
    return w;
}

// byte conservation + wire-level header comparison, needs a structural mapping
void checkConservation(Reporter& rep, const Batch& b, const std::vector<std::vector<uint8_t>>& frames, const Walk& w)
{
    if (!w.mapped)
        return;
    char buf[320];
    for (size_t fi = 0; fi < w.actual.size(); ++fi)
    {
        size_t off = wire::kCmpHeader;
        for (const auto& it : w.actual[fi].items)
        {
            const auto& pk = b.pkts[it.packet];
            const uint8_t* m = frames[fi].data() + off;
            if (memcmp(m + wire::kMsgHeader, pk.payload.data() + it.offset, it.length) != 0)
            {
                size_t k = 0;
                while (k < it.length && m[wire::kMsgHeader + k] == pk.payload[it.offset + k])
                    ++k;
                snprintf(buf, sizeof buf, "frame %zu: message of packet %zu (segment flag 0x%02x, payload offset %zu, length %zu) differs from the packet's bytes at +%zu: wire 0x%02x, packet 0x%02x",
                         fi, it.packet, it.seg, it.offset, it.length, k, m[wire::kMsgHeader + k], pk.payload[it.offset + k]);
                rep.v("C07", it.seg == wire::SEG_NONE ? "C07:payload-bytes-altered" : "C07:segment-bytes-not-the-packets-slice", buf);
            }
            // C12: the 16 message header bytes the encoder put on the wire follow the layout for the packet's message type:
            // timestamp, id word (data: interface id; status / vendor: two reserved zero bytes + vendor id; anything else: four
            // zero bytes), flags with the segment bits the layout calls for, payload type, length of this message
            {
                Bytes e;
                wire::put64(e, pk.ts);
                if (pk.msgType == wire::MT_DATA)
                    wire::put32(e, pk.ifid);
                else if (pk.msgType == wire::MT_STATUS || pk.msgType == wire::MT_VENDOR)
                {
                    wire::put16(e, 0);
                    wire::put16(e, pk.vendor);
                }
                else
                    wire::put32(e, 0);
                wire::put8(e, static_cast<uint8_t>((pk.flags & ~wire::CF_SEG) | it.seg));
                wire::put8(e, pk.ptype);
                wire::put16(e, static_cast<uint16_t>(it.length));
                if (memcmp(m, e.data(), wire::kMsgHeader) != 0)
                {
                    size_t k = 0;
                    while (k < wire::kMsgHeader && m[k] == e[k])
                        ++k;
                    snprintf(buf, sizeof buf, "frame %zu: message header of packet %zu (message type 0x%02x): byte %zu on the wire is 0x%02x, the layout says 0x%02x", fi, it.packet, pk.msgType, k, m[k], e[k]);
                    rep.v("C12", "C12:encoded-message-header-differs-from-layout", std::string(buf) + " wire=" + hex(m, wire::kMsgHeader, 16) + " layout=" + hex(e, 16));
                }
                if (frames[fi][1] != 0)
                    rep.v("C12", "C12:encoded-frame-header-reserved-byte-not-zero", "frame " + std::to_string(fi) + ": reserved byte of the CMP header is " + std::to_string(frames[fi][1]));
                rep.c.count("encoded_message_headers_compared_with_layout");
            }
            off += wire::kMsgHeader + it.length;
        }
    }
}

// C08: rule-by-rule, then equality with the reference layout
void checkLayout(Reporter& rep, Ctx& c, const Batch& b, const Walk& w)
{
    if (!w.mapped)
        return;
    std::vector<RefPacket> rp;
    for (auto& p : b.pkts)
        rp.push_back({p.msgType, p.payload.size()});
    Layout ref = refLayout(rp, b.cfg.max);
    const size_t cap = b.cfg.max - 8;
    char buf[320];
    // rule checks on the actual layout
    for (size_t fi = 0; fi < w.actual.size(); ++fi)
    {
        const auto& f = w.actual[fi];
        for (const auto& it : f.items)
        {
            const size_t need = 16 + b.pkts[it.packet].payload.size();
            if (it.seg != wire::SEG_NONE && need <= cap)
            {
                snprintf(buf, sizeof buf, "packet %zu (%zu payload bytes) fits an empty frame of max %zu but is segmented", it.packet, need - 16, b.cfg.max);
                rep.v("C08", "C08:split-although-fits", buf);
            }
            if (it.seg != wire::SEG_NONE && f.items.size() != 1)
            {
                snprintf(buf, sizeof buf, "frame %zu holds a segment of packet %zu together with %zu other message(s)", fi, it.packet, f.items.size() - 1);
                rep.v("C08", "C08:segment-shares-frame", buf);
            }
            if ((it.seg == wire::SEG_FIRST || it.seg == wire::SEG_MID) && it.length != cap - 16)
            {
                snprintf(buf, sizeof buf, "frame %zu: non-last segment of packet %zu carries %zu bytes, a full frame carries %zu", fi, it.packet, it.length, cap - 16);
                rep.v("C08", "C08:segment-does-not-fill-frame", buf);
            }
            if (f.msgType != b.pkts[it.packet].msgType)
            {
                snprintf(buf, sizeof buf, "frame %zu announces message type %u but carries packet %zu of message type %u", fi, f.msgType, it.packet, b.pkts[it.packet].msgType);
                rep.v("C08", "C08:message-type-mismatch", buf);
                rep.v("C09", "C09:frame-message-type", buf);
            }
        }
    }
    // equality with the reference layout (the rules determine the layout uniquely)
    bool same = ref.size() == w.actual.size();
    size_t firstDiff = 0;
    for (size_t fi = 0; same && fi < ref.size(); ++fi)
    {
        if (!(ref[fi].items == w.actual[fi].items))
        {
            same = false;
            firstDiff = fi;
        }
    }
    if (!same)
    {
        std::string key = "C08:layout-differs-from-rules";
        if (ref.size() != w.actual.size() && firstDiff == 0)
        {
            // find the first differing frame
            size_t n = std::min(ref.size(), w.actual.size());
            firstDiff = n;
            for (size_t fi = 0; fi < n; ++fi)
                if (!(ref[fi].items == w.actual[fi].items))
                {
                    firstDiff = fi;
                    break;
                }
        }
        if (firstDiff < ref.size() && firstDiff < w.actual.size())
        {
            const auto& rf = ref[firstDiff];
            const auto& af = w.actual[firstDiff];
            if (af.items.size() < rf.items.size() && !af.items.empty() && af.items.back().seg == wire::SEG_NONE &&
                std::equal(af.items.begin(), af.items.end(), rf.items.begin()))
                key = "C08:not-appended-although-fits";
            else if (af.items.size() > rf.items.size())
                key = "C08:appended-although-new-frame-required";
        }
        std::ostringstream d;
        d << "first difference at frame " << firstDiff << ": rules give " << ref.size() << " frames, encoder produced " << w.actual.size() << ";";
        auto dump = [&](const Layout& l, const char* name) {
            d << " " << name << "=[";
            for (size_t fi = (firstDiff > 1 ? firstDiff - 1 : 0); fi < l.size() && fi < firstDiff + 3; ++fi)
            {
                d << "#" << fi << "(";
                for (auto& it : l[fi].items)
                    d << "p" << it.packet << ":" << unsigned(it.seg) << "@" << it.offset << "+" << it.length << " ";
                d << ")";
            }
            d << "]";
        };
        dump(ref, "rules");
        dump(w.actual, "encoder");
        rep.v("C08", key, d.str());
    }

    // evidence: which fit / no-fit boundaries were reached (offset of the packet length relative to the boundary)
    if (c.prop == "C08" || c.prop == "C07" || c.prop == "C01")
    {
        size_t used = 0;
        uint8_t curType = 0;
        for (auto& p : b.pkts)
        {
            long L = static_cast<long>(p.payload.size());
            long dFresh = L - static_cast<long>(cap - 16);
            if (dFresh >= -2 && dFresh <= 2)
                c.count(std::string("fit_boundary_fresh_frame[") + std::to_string(dFresh) + "]");
            if (used && curType == p.msgType)
            {
                long dRem = L - (static_cast<long>(cap - used) - 16);
                if (dRem >= -2 && dRem <= 2)
                    c.count(std::string("fit_boundary_remaining_space[") + std::to_string(dRem) + "]");
            }
            else if (used && curType != p.msgType)
                c.count("type_change_inside_batch");
            size_t need = 16 + p.payload.size();
            if (need > cap)
                used = 0;
            else if (used && curType == p.msgType && used + need <= cap)
                used += need;
            else
            {
                used = need;
                curType = p.msgType;
            }
        }
    }
}

// C09 (per call part): header identity and consecutive counters, starting from `prev`
// returns the counter of the last frame (or prev if none)
uint16_t checkHeaders(Reporter& rep, const Batch& b, const std::vector<std::vector<uint8_t>>& frames, const Walk& w, uint16_t dev, uint8_t stream, uint16_t prev)
{
    char buf[256];
    for (size_t fi = 0; fi < frames.size(); ++fi)
    {
        if (frames[fi].size() < 8)
            continue;
        wire::FrameHdr h = wire::parseFrameHdr(frames[fi].data());
        uint16_t want = static_cast<uint16_t>(prev + 1);
        if (h.seq != want)
        {
            snprintf(buf, sizeof buf, "frame %zu carries sequence counter %u, previous emitted frame had %u", fi, h.seq, prev);
            rep.v("C09", "C09:counter-not-consecutive", buf);
        }
        prev = h.seq;
        if (h.device != dev || h.stream != stream)
        {
            snprintf(buf, sizeof buf, "frame %zu carries device %u stream %u, encoder is configured with device %u stream %u", fi, h.device, h.stream, dev, stream);
            rep.v("C09", "C09:frame-identity", buf);
        }
        if (!b.pkts.empty() && h.version != b.pkts[0].version)
        {
            snprintf(buf, sizeof buf, "frame %zu carries version %u, batch version is %u", fi, h.version, b.pkts[0].version);
            rep.v("C09", "C09:frame-version", buf);
        }
    }
    (void) w;
    return prev;
}

// C01: decode the frames and compare with the originals
void checkRoundTrip(Reporter& rep, Ctx& c, const Batch& b, const std::vector<std::vector<uint8_t>>& frames, uint16_t dev, uint8_t stream, Rng& r)
{
    Decoder dec;
    bool history = r.chance(1, 3);
    if (history)
    {
        // prior traffic on other endpoints, including a reassembly left open there
        for (int i = 0; i < 3; ++i)
        {
            uint16_t od = static_cast<uint16_t>(dev + 1 + i);
            Bytes f = wire::frameHeader(1, od, wire::MT_DATA, stream, static_cast<uint16_t>(100 + i));
            Bytes pl = r.bytes(20);
            wire::appendMessage(f, 1, 2, i == 2 ? wire::SEG_FIRST : 0, 0x10, pl);
            dec.decode(f.data(), f.size());
        }
        if (r.chance(1, 2))
        {
            // and a reassembly left open on the very endpoint the batch will arrive on
            Bytes f = wire::frameHeader(1, dev, wire::MT_DATA, stream, static_cast<uint16_t>(r.next()));
            Bytes pl = r.bytes(r.range(1, 30));
            wire::appendMessage(f, 9, 9, wire::SEG_FIRST, 0x10, pl);
            dec.decode(f.data(), f.size());
            c.count("roundtrip_with_open_reassembly_on_same_endpoint");
        }
        c.count("roundtrip_with_decoder_history");
    }
    std::vector<std::shared_ptr<Packet>> got;
    // one round trip in four: a copy of the decoder is taken between two frames (a snapshot that stays in use) and is given
    // every following frame BEFORE the original; both have seen exactly the encoder's frames and owe the same packets
    std::unique_ptr<Decoder> twin;
    const size_t twinAt = (frames.size() >= 2 && r.chance(1, 4)) ? 1 + r.below(frames.size() - 1) : 0;
    size_t twinCount = 0, origCountSinceTwin = 0;
    for (size_t fi = 0; fi < frames.size(); ++fi)
    {
        const auto& f = frames[fi];
        if (twinAt && fi == twinAt)
        {
            twin = cloneIfCopyable(dec);
            if (twin)
                c.count("roundtrip_decoder_copied_between_two_frames");
        }
        if (twin)
            twinCount += twin->decode(f.data(), f.size()).size();
        auto v = dec.decode(f.data(), f.size());
        if (twin)
            origCountSinceTwin += v.size();
        for (auto& p : v)
            got.push_back(p);
    }
    char buf[400];
    if (twin && twinCount != origCountSinceTwin)
    {
        snprintf(buf, sizeof buf, "a copy of the decoder taken before frame %zu of %zu returns %zu packets for the remaining frames, the original %zu", twinAt, frames.size(), twinCount, origCountSinceTwin);
        rep.v("C01", "C01:packet-count", buf);
    }
    if (got.size() != b.pkts.size())
    {
        snprintf(buf, sizeof buf, "%zu packets encoded into %zu frames, %zu packets decoded", b.pkts.size(), frames.size(), got.size());
        rep.v("C01", "C01:packet-count", buf);
    }
    // the packets exactly as the decoder handed them out (shared pointers), encoded again with the same ids and context,
    // give the same frames apart from the counters (they carry the same named fields, C01; the encoder sets the segment bits itself)
    if (got.size() == b.pkts.size() && c.prop == "C01")
    {
        bool allThere = true;
        for (auto& p : got)
            if (!p)
                allThere = false;
        if (allThere)
        {
            Encoder again;
            again.setDeviceId(dev);
            again.setStreamId(stream);
            DataContext ctx;
            ctx.minBytesPerMessage = b.cfg.min;
            ctx.maxBytesPerMessage = b.cfg.max;
            auto f2 = again.encode(got.begin(), got.end(), ctx);
            bool same = f2.size() == frames.size();
            size_t fi = 0;
            for (; same && fi < f2.size(); ++fi)
                if (f2[fi].size() != frames[fi].size() || f2[fi].size() < 8 || memcmp(f2[fi].data(), frames[fi].data(), 6) != 0 ||
                    memcmp(f2[fi].data() + 8, frames[fi].data() + 8, f2[fi].size() - 8) != 0)
                {
                    same = false;
                    break;
                }
            if (!same)
            {
                snprintf(buf, sizeof buf, "re-encoding the decoded packets gives %zu frames, the original encoding %zu; first difference at frame %zu", f2.size(), frames.size(), fi);
                rep.v("C01", "C01:re-encoding-the-decoded-packets-differs", buf);
            }
            c.count("decoded_batches_re_encoded");
        }
    }
    size_t n = std::min(got.size(), b.pkts.size());
    for (size_t i = 0; i < n; ++i)
    {
        const auto& d = b.pkts[i];
        if (!got[i])
        {
            rep.v("C01", "C01:null-packet", "decoded packet " + std::to_string(i) + " is null");
            continue;
        }
        PacketSnap s = snapPacket(*got[i]);
        const uint32_t wantType = (static_cast<uint32_t>(d.msgType) << 8) | d.ptype;
        auto fail = [&](const char* key, const std::string& what) {
            rep.v("C01", key, "packet " + std::to_string(i) + " (" + kindName(d.kind) + ", " + std::to_string(d.payload.size()) + " bytes): " + what + "; decoded " + s.str());
        };
        if (!s.valid)
            fail("C01:decoded-packet-invalid", "well-formed payload decoded as invalid");
        if (s.payload.type != wantType)
        {
            snprintf(buf, sizeof buf, "payload type 0x%04x, original 0x%04x", s.payload.type, wantType);
            fail("C01:payload-type", buf);
        }
        if (s.payload.msgType != d.msgType)
        {
            snprintf(buf, sizeof buf, "message type %u, original %u", s.payload.msgType, d.msgType);
            fail("C01:message-type", buf);
        }
        if (s.payload.bytes != d.payload)
        {
            size_t k = 0;
            while (k < s.payload.bytes.size() && k < d.payload.size() && s.payload.bytes[k] == d.payload[k])
                ++k;
            snprintf(buf, sizeof buf, "payload differs (decoded %zu bytes, original %zu, first difference at %zu)", s.payload.bytes.size(), d.payload.size(), k);
            fail("C01:payload-bytes", buf);
        }
        if (s.ts != d.ts)
            fail("C01:timestamp", "timestamp differs, original " + std::to_string(d.ts));
        if (d.msgType == wire::MT_DATA && s.interfaceId != d.ifid)
            fail("C01:interface-id", "interface id differs, original " + std::to_string(d.ifid));
        if ((d.msgType == wire::MT_STATUS || d.msgType == wire::MT_VENDOR) && s.vendorId != d.vendor)
            fail("C01:vendor-id", "vendor id differs, original " + std::to_string(d.vendor));
        if (s.version != d.version)
            fail("C01:version", "version differs, original " + std::to_string(d.version));
        if ((s.flags & ~wire::CF_SEG) != (d.flags & ~wire::CF_SEG))
        {
            snprintf(buf, sizeof buf, "non-segmentation flag bits 0x%02x, original 0x%02x", s.flags & ~wire::CF_SEG, d.flags & ~wire::CF_SEG);
            fail("C01:common-flags", buf);
        }
        if (s.device != dev || s.stream != stream)
        {
            snprintf(buf, sizeof buf, "tagged device %u stream %u, encoder has device %u stream %u", s.device, s.stream, dev, stream);
            fail("C01:device-stream-tag", buf);
        }
    }
}

uint64_t batchSignature(const Batch& b, bool& nontrivial, const Walk& w)
{
    const long cap = static_cast<long>(b.cfg.max) - 24;
    uint64_t h = mix64(b.cfg.max, b.cfg.min == 0 ? 0 : (b.cfg.min == b.cfg.max ? 1 : (b.cfg.min < 25 ? 2 : 3)));
    bool seg = false, agg = false;
    for (auto& p : b.pkts)
    {
        long L = static_cast<long>(p.payload.size());
        long k = cap > 0 ? (L + cap / 2) / cap : 0;  // nearest multiple of the frame capacity
        long d = L - k * cap;
        if (d < -3) d = -3;
        if (d > 3) d = 3;
        bool s = L > cap;
        seg = seg || s;
        h = mix64(h, mix64(static_cast<uint64_t>(p.kind) * 16 + static_cast<uint64_t>(d + 3), (static_cast<uint64_t>(k > 4 ? 4 : k) << 1) | (s ? 1 : 0)));
    }
    if (w.mapped)
        for (auto& f : w.actual)
            if (f.items.size() >= 2)
                agg = true;
    nontrivial = seg || agg;
    return h;
}

struct EncodeResult
{
    std::vector<std::vector<uint8_t>> frames;
    Walk walk;
};

// runs every per-call oracle on one encode() output
EncodeResult analyse(Ctx& c, Reporter& rep, const Batch& b, std::vector<std::vector<uint8_t>> frames, uint16_t dev, uint8_t stream, Rng& r, bool doRoundTrip)
{
    EncodeResult res;
    res.frames = std::move(frames);
    res.walk = walkFrames(rep, b, res.frames);
    checkConservation(rep, b, res.frames, res.walk);
    checkLayout(rep, c, b, res.walk);
    if (doRoundTrip && !b.pkts.empty())
        checkRoundTrip(rep, c, b, res.frames, dev, stream, r);
    c.count("frames", res.frames.size());
    c.count("messages", res.walk.msgs.size());
    c.count("packets", b.pkts.size());
    for (size_t fi = 0; fi < res.frames.size(); ++fi)
        if (fi < res.walk.frameEnd.size() && res.frames[fi].size() > res.walk.frameEnd[fi])
            c.count("padded_frames");
    for (auto& m : res.walk.msgs)
        if (m.h.seg() != wire::SEG_NONE)
            c.count("segment_messages");
    ++c.evaluations;
    return res;
}

// -------------------------------------------------------------------------------------------------
// Case families

// deterministic single-packet sweep: max in [25,96] x len in [1,3*max]
constexpr long kSweep1 = 3 * (25 + 96) * 72 / 2;  // 13068
bool sweep1(long idx, Batch& b, Rng& r)
{
    long i = idx;
    for (size_t max = 25; max <= 96; ++max)
    {
        long n = 3 * static_cast<long>(max);
        if (i < n)
        {
            b.cfg.max = max;
            b.cfg.min = (idx % 5 == 0) ? max : ((idx % 7 == 0) ? 64 % (max + 1) : 0);
            Kind k = (idx % 3 == 0) ? K_ETH : ((idx % 3 == 1) ? K_GEN_DATA : K_GEN_STATUS);
            b.pkts.push_back(genPkt(r, k, static_cast<size_t>(i + 1), static_cast<uint8_t>(1 + idx % 255)));
            b.overload = static_cast<int>(idx % 4);
            return true;
        }
        i -= n;
    }
    return false;
}

// deterministic two-packet sweep for max in {25,26,40,41,64,100}, len1,len2 in [1,max+20]
const size_t kSweep2Max[] = {25, 26, 40, 41, 64, 100};
long sweep2Count(bool thorough)
{
    long n = 0;
    for (size_t m : kSweep2Max)
    {
        long s = static_cast<long>(m) + 20;
        n += thorough ? s * s : (s * s + 7) / 8;
    }
    return n;
}
bool sweep2(long idx, bool thorough, Batch& b, Rng& r)
{
    long i = idx;
    for (size_t m : kSweep2Max)
    {
        long s = static_cast<long>(m) + 20;
        long n = thorough ? s * s : (s * s + 7) / 8;
        if (i < n)
        {
            long j = thorough ? i : std::min<long>(i * 8 + (i * 5) % 8, s * s - 1);  // 1-in-8 lattice with a moving phase
            size_t l1 = static_cast<size_t>(j / s + 1), l2 = static_cast<size_t>(j % s + 1);
            b.cfg.max = m;
            b.cfg.min = (idx % 11 == 0) ? m : 0;
            bool sameType = (idx % 4 != 0);
            b.pkts.push_back(genPkt(r, K_GEN_DATA, l1, 1));
            b.pkts.push_back(genPkt(r, sameType ? K_GEN_DATA : K_GEN_STATUS, l2, 1));
            b.overload = static_cast<int>(idx % 3);
            return true;
        }
        i -= n;
    }
    return false;
}

// min sweeps: max in {25,40,64}, every min in [0,max], three shapes
constexpr long kMinSweep = (26 + 41 + 65) * 3;
bool minSweep(long idx, Batch& b, Rng& r)
{
    long i = idx / 3;
    int shape = static_cast<int>(idx % 3);
    for (size_t m : {size_t(25), size_t(40), size_t(64)})
    {
        long n = static_cast<long>(m) + 1;
        if (i < n)
        {
            b.cfg.max = m;
            b.cfg.min = static_cast<size_t>(i);
            if (shape == 0)
                b.pkts.push_back(genPkt(r, K_GEN_DATA, 1, 1));
            else if (shape == 1)
            {
                b.pkts.push_back(genPkt(r, K_GEN_DATA, m - 24 + 3, 1));  // segmented, short last segment
                b.pkts.push_back(genPkt(r, K_GEN_DATA, 2, 1));
            }
            else
            {
                b.pkts.push_back(genPkt(r, K_GEN_DATA, 3, 1));
                b.pkts.push_back(genPkt(r, K_GEN_STATUS, 2, 1));
            }
            b.overload = 0;
            return true;
        }
        i -= n;
    }
    return false;
}

// top of the legal ranges: max in [65536, 65559] x payload length in [65500, 65535] (16-bit size arithmetic wraps here),
// alone and after a small packet of the same type
constexpr long kTopSweep = 24 * 36 * 2;
bool topSweep(long idx, Batch& b, Rng& r)
{
    long i = idx / 2;
    size_t max = 65536 + static_cast<size_t>(i / 36);
    size_t len = 65500 + static_cast<size_t>(i % 36);
    b.cfg.max = max;
    b.cfg.min = (idx % 7 == 0) ? max : 0;
    if (idx % 4 == 1)
        b.pkts.push_back(genPkt(r, K_GEN_DATA, 1 + static_cast<size_t>(idx % 13), 1));
    b.pkts.push_back(genPkt(r, (idx % 3) ? K_GEN_DATA : K_GEN_STATUS, len, 1));
    if (idx % 4 == 3)
    {
        // a tiny packet of the same type BEHIND the big one: when both fit, the second message starts near offset 65536
        PktDesc t = genPkt(r, b.pkts.back().kind, 1 + static_cast<size_t>(idx % 7), 1);
        t.msgType = b.pkts.back().msgType;
        b.pkts.push_back(t);
    }
    b.overload = static_cast<int>(idx % 3);
    return true;
}

// n tiny messages of one type in one frame, then a follow-up packet that (0) fits exactly, (1) does not fit the rest but fits an
// empty frame, (2) needs segmentation; n around the powers of two where a narrow per-frame message counter would wrap
constexpr long kCountSweep = 17 * 3 * 2;
bool countSweep(long idx, Batch& b, Rng& r)
{
    // (a frame of the largest legal size, 65559 bytes, holds at most 3855 messages)
    static const size_t ns[] = {254, 255, 256, 257, 258, 510, 511, 512, 513, 514, 1023, 1024, 1025, 2047, 2048, 2049, 65};
    size_t n = ns[idx % 17];
    int follow = static_cast<int>((idx / 17) % 3);
    bool status = (idx / 51) % 2;
    const size_t each = 16 + 2;  // two payload bytes per tiny packet
    const size_t rest = 40;      // message bytes left in the frame after the n tiny messages
    b.cfg.max = 8 + n * each + rest;
    b.cfg.min = 0;
    Kind k = status ? K_GEN_STATUS : K_GEN_DATA;
    for (size_t i = 0; i < n; ++i)
    {
        PktDesc d = genPkt(r, k, 2, 1);
        d.payload = Bytes{static_cast<uint8_t>(i), static_cast<uint8_t>(i >> 8)};
        d.ptype = 0x30;
        b.pkts.push_back(std::move(d));
    }
    size_t len = follow == 0 ? rest - 16 : (follow == 1 ? rest - 16 + 1 + r.below(30) : b.cfg.max + r.below(200));
    PktDesc f = genPkt(r, k, len, 1);
    f.ptype = 0x31;
    b.pkts.push_back(std::move(f));
    PktDesc t = genPkt(r, k, 3, 1);
    t.ptype = 0x32;
    b.pkts.push_back(std::move(t));
    b.overload = static_cast<int>(idx % 3);
    return true;
}

// one batch per payload kind x {aggregated, segmented}, mixed type patterns, the 65535-byte payloads
constexpr long kKindCases = K_COUNT * 2 + 8 + 10 + 6;
void kindCase(long idx, Batch& b, Rng& r)
{
    if (idx < K_COUNT * 2)
    {
        Kind k = static_cast<Kind>(idx / 2);
        bool seg = idx % 2;
        size_t minLen = kindMinLen(k);
        if (seg)
        {
            b.cfg.max = 24 + minLen / 2 + 7;  // certainly smaller than one payload
            b.pkts.push_back(genPkt(r, k, minLen + 9, 7));
            b.pkts.push_back(genPkt(r, k, minLen + 1, 7));
        }
        else
        {
            b.cfg.max = 8 + 3 * (16 + minLen + 4);
            for (int i = 0; i < 3; ++i)
                b.pkts.push_back(genPkt(r, k, minLen + static_cast<size_t>(i), 7));
        }
        b.overload = static_cast<int>(idx % 3);
        return;
    }
    long j = idx - K_COUNT * 2;
    b.cfg.max = 120;
    if (j >= 18)
    {
        // message type 'undefined' (0): first / later / only packet, fitting and needing segmentation
        long q = j - 18;
        PktDesc u = genPkt(r, K_OTHER_MT, (q % 2) ? 300 : 20, 1);
        u.msgType = 0;
        if (q / 2 == 1)
            b.pkts.push_back(genPkt(r, K_GEN_DATA, 10, 1));
        b.pkts.push_back(u);
        if (q / 2 == 2)
        {
            PktDesc u2 = genPkt(r, K_OTHER_MT, 250, 1);
            u2.msgType = 0;
            b.pkts.push_back(u2);
        }
        b.pkts.push_back(genPkt(r, K_GEN_DATA, 12, 1));
        b.overload = 0;
        return;
    }
    if (j >= 8)
    {
        // hundreds / thousands of tiny packets: frames with more than 255 / 4095 messages, batches with more than 65535 payload bytes
        static const size_t counts[] = {256, 300, 1000, 4100, 70000 / 17};
        static const size_t maxes[] = {65559, 8 + 300 * 17, 1500, 65559, 40000};
        size_t n = counts[(j - 8) % 5];
        b.cfg.max = maxes[(j - 8) % 5];
        b.cfg.min = (j % 2) ? 64 : 0;
        for (size_t i = 0; i < n; ++i)
        {
            PktDesc d = genPkt(r, (j - 8) / 5 ? K_GEN_STATUS : K_GEN_DATA, 1, 3);
            d.payload = Bytes(1 + i % 3, static_cast<uint8_t>(i));
            b.pkts.push_back(std::move(d));
        }
        b.overload = static_cast<int>(j % 3);
        return;
    }
    switch (j)
    {
        case 0:  // data, status, data
            b.pkts.push_back(genPkt(r, K_CAN, 24, 1));
            b.pkts.push_back(genPkt(r, K_CM, 60, 1));
            b.pkts.push_back(genPkt(r, K_CAN, 20, 1));
            break;
        case 1:  // vendor, data
            b.pkts.push_back(genPkt(r, K_VENDOR, 10, 2));
            b.pkts.push_back(genPkt(r, K_ETH, 30, 2));
            break;
        case 2:  // control only
            b.pkts.push_back(genPkt(r, K_CONTROL, 12, 3));
            b.pkts.push_back(genPkt(r, K_CONTROL, 13, 3));
            break;
        case 3:  // segmented status after data
            b.pkts.push_back(genPkt(r, K_ETH, 10, 1));
            b.pkts.push_back(genPkt(r, K_IF, 300, 1));
            b.pkts.push_back(genPkt(r, K_ETH, 10, 1));
            break;
        case 4:  // 65535 bytes at max 1500
            b.cfg.max = 1500;
            b.pkts.push_back(genPkt(r, K_ETH, 65535, 1));
            break;
        case 5:  // 65535 bytes at the smallest frame size
            b.cfg.max = 25;
            b.pkts.push_back(genPkt(r, K_GEN_DATA, 65535, 1));
            break;
        case 6:  // largest payload that still fits the largest frame
            b.cfg.max = 65535 + 24;
            b.pkts.push_back(genPkt(r, K_ETH, 65535, 1));
            b.pkts.push_back(genPkt(r, K_ETH, 1, 1));
            break;
        default:  // alternating types
            for (int i = 0; i < 8; ++i)
                b.pkts.push_back(genPkt(r, (i % 2) ? K_GEN_STATUS : K_GEN_DATA, 5 + static_cast<size_t>(i), 9));
            break;
    }
    b.overload = 0;
}

// C01 only (its domain has no upper bound on the maximum; C07 / C08 stop at 65535 + 24): frame sizes above 64 KiB, where no
// packet is ever segmented and aggregation carries messages past frame offsets 65536, 131072, ...
constexpr long kBigMax = 96;
bool bigMaxCase(long idx, Batch& b, Rng& r)
{
    static const size_t maxes[] = {65560, 65561, 65600, 66000, 70000, 100000, 131072 + 24, 131072 + 40, 200000, 262144 + 8, 300000, 1000000};
    b.cfg.max = maxes[idx % 12];
    long shape = (idx / 12) % 8;
    b.cfg.min = (idx % 5 == 0) ? b.cfg.max : ((idx % 7 == 0) ? 70000 % (b.cfg.max + 1) : 0);
    Kind k = (idx % 3) ? K_GEN_DATA : K_GEN_STATUS;
    auto same = [&](size_t len) {
        PktDesc d = genPkt(r, k, len, 1);
        if (!b.pkts.empty())
            d.msgType = b.pkts.front().msgType;
        b.pkts.push_back(std::move(d));
    };
    switch (shape)
    {
        case 0:  // the largest payload, then small ones that start behind offset 65536
            same(65535);
            for (int i = 0; i < 6; ++i)
                same(1 + static_cast<size_t>(i) * 7);
            break;
        case 1:  // many mid-sized packets: message starts on both sides of every multiple of 65536 the frame reaches
            for (size_t i = 0, n = 30 + static_cast<size_t>(idx % 120); i < n; ++i)
                same(2000 + (i % 5));
            break;
        case 2:  // a message header that straddles offset 65536 (starts at 65536 - d, d in 1..15)
        {
            size_t d = 1 + static_cast<size_t>(idx / 96 + idx) % 15;
            same(65536 - d - 8 - 16);
            same(100);
            same(50);
            break;
        }
        case 3:  // a message that starts exactly at offset 65536 / 131072
        {
            size_t target = (idx % 2) ? 131072 : 65536;
            size_t used = 8;
            while (used + 16 + 60000 + 16 < target)
            {
                same(60000);
                used += 16 + 60000;
            }
            same(target - used - 16);
            same(300);
            same(1);
            break;
        }
        case 4:  // two largest payloads and a tail
            same(65535);
            same(65535);
            same(65535);
            same(9);
            break;
        case 5:  // thousands of tiny packets
            for (size_t i = 0; i < 4500; ++i)
                same(1 + i % 3);
            break;
        case 6:  // mixed message types: a type switch behind offset 65536
            same(65000);
            same(600);
            b.pkts.push_back(genPkt(r, k == K_GEN_DATA ? K_GEN_STATUS : K_GEN_DATA, 40, 1));
            same(41);
            break;
        default:  // random lengths
            for (size_t i = 0, n = 2 + r.below(60); i < n; ++i)
                same(r.chance(1, 4) ? 1 + r.below(65535) : 1 + r.below(5000));
            break;
    }
    b.overload = static_cast<int>(idx % 3);
    return true;
}

// a segmented packet whose FIRST segment travels in the frame with sequence counter 65533 .. 1 (the packets before it fill
// exactly that many one-byte frames at max = 25), segments of 1 and of several bytes, followed by a small packet
constexpr long kWrapAlign = 10;
bool wrapAlignCase(long idx, Batch& b, Rng& r)
{
    long d = idx % 5 - 2;  // first segment's counter = 65535 + d
    bool wide = idx >= 5;
    b.cfg.max = wide ? 40 : 25;
    b.cfg.min = 0;
    size_t per = b.cfg.max - 24;  // payload bytes per frame
    size_t framesBefore = static_cast<size_t>(65534 + d);
    // packets of at most 65535 bytes that fill exactly framesBefore full frames
    size_t bytesBefore = framesBefore * per;
    while (bytesBefore > 0)
    {
        size_t chunkFrames = std::min<size_t>(bytesBefore / per, 65535 / per);
        PktDesc a = genPkt(r, K_GEN_DATA, chunkFrames * per, 1);
        a.msgType = wire::MT_DATA;
        b.pkts.push_back(std::move(a));
        bytesBefore -= chunkFrames * per;
    }
    PktDesc s = genPkt(r, K_GEN_DATA, 3 * per + 1, 1);  // four segments: counters 65535+d .. 65538+d
    s.msgType = wire::MT_DATA;
    b.pkts.push_back(std::move(s));
    PktDesc t = genPkt(r, K_GEN_DATA, 2, 1);
    t.msgType = wire::MT_DATA;
    b.pkts.push_back(std::move(t));
    b.overload = static_cast<int>(idx % 3);
    return true;
}

// Encoder::encode and Decoder::decode owe the same answer whenever they are called: during the static initialisation of another
// translation unit (the driver's objects are linked in front of the library), inside main(), and after main() has returned
// (atexit handler registered before the library is first used). A fixed set of batches - one per payload kind, aggregated and
// segmented, mixed message types - is encoded by a fresh encoder and decoded again at all three moments; the frames and the
// decoded packets must be identical each time.
std::vector<std::string> codecFixedSet()
{
    std::vector<std::string> out;
    Rng r(0x01C0FFEEULL);
    for (long i = 0; i < K_COUNT * 2 + 8; ++i)
    {
        if (i >= K_COUNT * 2 + 4 && i <= K_COUNT * 2 + 6)
            continue;  // (the 65535-byte batches: tens of thousands of frames are not needed here)
        Batch b;
        kindCase(i, b, r);
        Encoder enc;
        enc.setDeviceId(0x1234);
        enc.setStreamId(7);
        auto frames = runEncode(enc, b);
        std::string line = "batch " + std::to_string(i) + ": " + std::to_string(frames.size()) + " frames";
        Decoder dec;
        for (auto& f : frames)
        {
            line += " " + hex(f, 96);
            for (auto& p : dec.decode(f.data(), f.size()))
                line += p ? " -> " + snapPacket(*p).str() : " -> null";
        }
        out.push_back(std::move(line));
    }
    return out;
}
std::string codecFirstDifference(const std::vector<std::string>& a, const std::vector<std::string>& b)
{
    for (size_t i = 0; i < a.size() && i < b.size(); ++i)
        if (a[i] != b[i])
            return "then: " + a[i].substr(0, 1500) + " now: " + b[i].substr(0, 1500);
    return a.size() == b.size() ? "" : "different number of results";
}
void codecAfterMain();
// (never destroyed: the atexit handler still reads it)
const std::vector<std::string>& gCodecBeforeMain = *new std::vector<std::string>((lateReport(), atexit(codecAfterMain), probeInChild(codecFixedSet)));
void codecAfterMain()
{
    if (lateReport().shard != 0)
        return;
    std::string d = codecFirstDifference(gCodecBeforeMain, codecFixedSet());
    if (!d.empty())
        lateViolation(lateReport().prop + ":codec-result-after-main-returned-differs", d);
}
void codecOutsideMainCase(Ctx& c)
{
    auto now = codecFixedSet();
    std::string d = probeDied(gCodecBeforeMain);
    if (d.empty())
        d = codecFirstDifference(gCodecBeforeMain, now);
    ++c.evaluations;
    c.count("batches_also_encoded_and_decoded_before_and_after_main", now.size());
    if (!d.empty())
        c.violation(c.prop + ":codec-result-of-a-call-before-main-differs", "encoded / decoded during static initialisation " + d, "fixed set of batches (one per payload kind, aggregated and segmented, mixed types)");
}

struct Plan
{
    long wrapAlign = 0;
    long bigMax = 0;
    long sweep1 = 0, sweep2 = 0, minSweep = 0, topSweep = 0, countSweep = 0, kinds = 0, empty = 0, randomBatches = 0;
    long histDet = 0, histRandom = 0;
    long total() const
    {
        return sweep1 + sweep2 + minSweep + topSweep + countSweep + kinds + empty + randomBatches + histDet + histRandom + bigMax + wrapAlign;
    }
};

constexpr long kHistDetSpecial = 13;
constexpr long kHistDetPairs = 12 * 12;

Plan plan(const Ctx& c)
{
    Plan p;
    bool th = c.thorough();
    bool batchProp = (c.prop == "C01" || c.prop == "C07" || c.prop == "C08");
    if (batchProp)
    {
        p.sweep1 = kSweep1;
        p.sweep2 = sweep2Count(th);
        p.minSweep = kMinSweep;
        p.topSweep = kTopSweep;
        p.countSweep = kCountSweep;
        p.kinds = kKindCases;
        p.empty = 4;
        p.randomBatches = th ? 2000000 : 150000;
        p.histDet = kHistDetPairs + 7;  // all ordered pairs of canonical shapes + the histories with aborted calls (exceptions, allocation failures)
        p.histRandom = th ? 200000 : 12000;
        if (c.prop == "C01")
            p.bigMax = th ? kBigMax * 20 : kBigMax;
        p.wrapAlign = kWrapAlign;
    }
    else
    {
        p.kinds = kKindCases;
        p.empty = 4;
        p.randomBatches = th ? 200000 : 5000;
        p.histDet = kHistDetSpecial + kHistDetPairs;
        p.histRandom = th ? (c.prop == "C10" ? 1500000 : 200000) : (c.prop == "C10" ? 60000 : 15000);
    }
    return p;
}

// -------------------------------------------------------------------------------------------------

void runBatchCase(Ctx& c, const Batch& b, Rng& r, uint16_t dev, uint8_t stream)
{
    std::string input = describe(b, dev, stream);
    c.note(input);
    Reporter rep{c, input};
    Encoder enc;
    enc.setDeviceId(dev);
    enc.setStreamId(stream);
    auto frames = runEncode(enc, b);
    EncodeResult res = analyse(c, rep, b, std::move(frames), dev, stream, r, true);
    uint16_t last = checkHeaders(rep, b, res.frames, res.walk, dev, stream, 0);
    if (!res.frames.empty() && enc.getSequenceCounter() != last)
        rep.v("C09", "C09:reported-counter-differs-from-last-frame", "getSequenceCounter()=" + std::to_string(enc.getSequenceCounter()) + ", last frame carries " + std::to_string(last));
    bool nt = false;
    uint64_t sig = batchSignature(b, nt, res.walk);
    if (nt)
        c.sig(sig);
    c.sample(input + " -> " + std::to_string(res.frames.size()) + " frames");
}

// ---- histories (C09, C10) ----

struct Op
{
    int kind = 3;  // 0 setDeviceId, 1 setStreamId, 2 restart, 3 encode, 4 encode whose input iterator throws, 5 encode with an unallocatable maximum,
                   // 9 encode during which one allocation (number throwAt modulo the call's allocation count) fails with std::bad_alloc
    size_t throwAt = 0;
    uint16_t dev = 0;
    uint8_t stream = 0;
    Batch batch;
};

Batch canonicalShape(int shape, int typeMode, Rng& r)
{
    // shape: 0 small single, 1 aggregated, 2 exact fit, 3 segmented;  typeMode: 0 data, 1 status, 2 mixed
    Batch b;
    b.cfg.max = 64;
    b.cfg.min = 0;
    auto K = [&](int i) { return typeMode == 0 ? K_GEN_DATA : (typeMode == 1 ? K_GEN_STATUS : ((i % 2) ? K_GEN_STATUS : K_GEN_DATA)); };
    switch (shape)
    {
        case 0: b.pkts.push_back(genPkt(r, K(0), 5, 1)); break;
        case 1:
            for (int i = 0; i < 3; ++i)
                b.pkts.push_back(genPkt(r, K(i), 4 + static_cast<size_t>(i), 1));
            break;
        case 2: b.pkts.push_back(genPkt(r, K(0), 64 - 24, 1)); break;
        default:
            b.pkts.push_back(genPkt(r, K(0), 100, 1));
            if (typeMode == 2)
                b.pkts.push_back(genPkt(r, K(1), 90, 1));
            break;
    }
    b.overload = (b.pkts.size() == 1) ? 3 : 0;
    return b;
}

Batch bigBatch(Rng& r)
{
    Batch b;
    b.cfg.max = 25;
    b.cfg.min = 0;
    b.pkts.push_back(genPkt(r, K_GEN_DATA, 65535, 1));
    b.overload = 0;
    return b;
}
Batch smallBatch(Rng& r, size_t n = 1)
{
    Batch b;
    b.cfg.max = 100;
    for (size_t i = 0; i < n; ++i)
        b.pkts.push_back(genPkt(r, K_GEN_DATA, 70, 1));  // one frame per packet
    b.overload = 0;
    return b;
}

std::vector<Op> detHistory(long j, Rng& r)
{
    std::vector<Op> h;
    auto enc = [&](Batch b) {
        Op o;
        o.kind = 3;
        o.batch = std::move(b);
        h.push_back(std::move(o));
    };
    auto cfg = [&](int kind, uint16_t dev, uint8_t stream) {
        Op o;
        o.kind = kind;
        o.dev = dev;
        o.stream = stream;
        h.push_back(o);
    };
    if (j < kHistDetSpecial)
    {
        switch (j)
        {
            case 0:  // cross the wrap twice on one encoder: > 140000 frames
                enc(bigBatch(r));      // counters 1..65535
                enc(smallBatch(r));    // 0
                enc(smallBatch(r, 3)); // 1..3
                enc(bigBatch(r));      // 4..65535,0,1,2
                enc(bigBatch(r));      // crosses again
                enc(smallBatch(r, 2));
                break;
            case 1:  // restart exactly at 65535
                enc(bigBatch(r));
                cfg(2, 0, 0);
                enc(smallBatch(r, 2));
                break;
            case 2:  // setStreamId exactly at counter 0 (just wrapped)
                enc(bigBatch(r));
                enc(smallBatch(r));
                cfg(1, 0, 9);
                enc(smallBatch(r, 2));
                break;
            case 3:  // setDeviceId at counter 1, restart on a fresh encoder, empty batches in between
                enc(smallBatch(r));
                cfg(0, 77, 0);
                enc(smallBatch(r, 2));
                cfg(2, 0, 0);
                cfg(2, 0, 0);
                {
                    Batch e;
                    e.cfg.max = 100;
                    enc(e);
                }
                enc(smallBatch(r));
                break;
            case 6:  // an earlier call left encode() by an exception (iterator failure mid-batch, unallocatable frame size)
            case 7:
            case 8:
            {
                Op a;
                a.kind = (j == 7) ? 5 : 4;
                a.batch = canonicalShape(j == 8 ? 1 : 3, 0, r);  // data packets
                a.throwAt = (j == 8) ? 2 : 0;
                h.push_back(a);
                enc(canonicalShape(3, 0, r));  // same type, needs segmentation
                enc(canonicalShape(1, 0, r));
                Op a2 = a;
                a2.kind = 4;
                a2.throwAt = 1;
                a2.batch = canonicalShape(1, 2, r);
                h.push_back(a2);
                enc(canonicalShape(0, 1, r));
                break;
            }
            case 9:  // every allocation of an encode call fails in turn (std::bad_alloc leaves encode() mid-way); the next calls are
            case 10:  // judged like any other: segmented data, aggregated mixed types, exact fit status, a long mixed batch
            case 11:
            case 12:
            {
                for (size_t k = 0; k < 48; ++k)
                {
                    Op a;
                    a.kind = 9;
                    a.throwAt = k;
                    if (j == 9)
                    {
                        a.batch = canonicalShape(3, 0, r);
                        a.batch.pkts.resize(1);  // one packet that needs segmentation, through the single-packet overload
                        a.batch.overload = 3;
                    }
                    else if (j == 10)
                        a.batch = canonicalShape(1, 2, r);
                    else if (j == 11)
                        a.batch = canonicalShape(2, 1, r);
                    else
                    {
                        a.batch = canonicalShape(3, 2, r);
                        Batch more = canonicalShape(1, 2, r);
                        for (auto& d : more.pkts)
                        {
                            d.version = a.batch.pkts[0].version;
                            a.batch.pkts.push_back(d);
                        }
                        a.batch.cfg.min = 40;
                        a.batch.overload = 2;
                    }
                    h.push_back(a);
                    enc(canonicalShape(static_cast<int>((k + static_cast<size_t>(j)) % 4), static_cast<int>(k % 3), r));
                    if (k % 3 == 0)
                        enc(a.batch);  // the very batch whose encoding was aborted
                }
                break;
            }
            case 5:  // many encode calls on one encoder (more than 256, more than 4096): small batches, one config
                for (int i = 0; i < 4200; ++i)
                {
                    Batch sb = smallBatch(r, 1 + static_cast<size_t>(i % 3));
                    if (i % 97 == 0)
                        sb.pkts[0] = genPkt(r, K_GEN_DATA, 300, 1);  // now and then a segmented one
                    enc(std::move(sb));
                }
                break;
            default:  // set* with the value already configured still resets
                cfg(0, 5, 0);
                enc(smallBatch(r, 3));
                cfg(0, 5, 0);
                enc(smallBatch(r, 2));
                cfg(1, 0, 0);
                enc(smallBatch(r, 2));
                break;
        }
        return h;
    }
    j -= kHistDetSpecial;
    int a = static_cast<int>(j / 12), b = static_cast<int>(j % 12);
    enc(canonicalShape(a / 3, a % 3, r));
    enc(canonicalShape(b / 3, b % 3, r));
    return h;
}

std::vector<Op> randomHistory(Ctx& c, Rng& r)
{
    std::vector<Op> h;
    bool c10 = c.prop == "C10";
    size_t n = c10 ? r.range(2, 8) : r.range(5, c.thorough() ? 60 : 30);
    for (size_t i = 0; i < n; ++i)
    {
        Op o;
        unsigned w = static_cast<unsigned>(r.below(100));
        if (w < (c10 ? 8u : 25u))
        {
            o.kind = static_cast<int>(r.below(3));
            o.dev = r.chance(1, 3) ? r.pick<uint16_t>({0, 1, 0xFFFF, 0x0100}) : static_cast<uint16_t>(r.next());
            o.stream = r.chance(1, 3) ? r.pick<uint8_t>({0, 1, 255}) : r.byte();
        }
        else
        {
            o.kind = 3;
            if (r.chance(1, 15))
            {
                // 6: copy and assign back; 7: continue on a copy while the original stays alive; 8: ... and the original is destroyed
                o.kind = r.pick<int>({6, 7, 7, 8});
                h.push_back(o);
                continue;
            }
            if (r.chance(1, c10 ? 12 : 20))
            {
                o.batch = genBatch(r, 6, false, c.prop != "C01");
                o.kind = r.chance(1, 4) ? 5 : (r.chance(1, 2) ? 9 : 4);
                o.throwAt = o.kind == 9 ? r.below(64) : r.below(o.batch.pkts.size());
            }
            else if (r.chance(1, 12))
            {
                o.batch.cfg = genConfig(r);  // empty batch
            }
            else
            {
                o.batch = genBatch(r, c10 ? 8 : 5, false, c.prop != "C01", c.prop == "C09");
                // the same context across consecutive calls is the common usage: reuse the previous one half of the time
                if (r.chance(1, 2))
                    for (size_t k = h.size(); k-- > 0;)
                        if (h[k].kind == 3)
                        {
                            o.batch.cfg = h[k].batch.cfg;
                            break;
                        }
            }
        }
        h.push_back(std::move(o));
    }
    return h;
}

// Caller-owned packet objects that live across encode() calls (a reused send buffer): the batch is brought about by editing
// the existing objects IN PLACE - header fields through the Packet setters, Ethernet payloads through a Payload& obtained
// when the object got its payload (the idiom of the repository's example), anything else through setPayload - and new
// objects are appended without moving the old ones. The objects keep their addresses from call to call.
struct KeptObjects
{
    std::vector<Packet> objs;
    std::vector<Payload*> refs;   // reference into each object's payload, taken when the payload was stored
    std::vector<PktDesc> descs;   // what each object currently holds
    KeptObjects()
    {
        objs.reserve(64);
    }
};

// before the call is described: make a good share of the packets Ethernet packets whose data can be (and then is) set in place
void adaptBatchToKept(Batch& b, const KeptObjects& k, Rng& r)
{
    for (size_t i = 0; i < b.pkts.size(); ++i)
    {
        PktDesc& d = b.pkts[i];
        if (i < k.descs.size() && k.descs[i].version == d.version && r.chance(1, 4))
        {
            // "same packet object, other payload": between the two encodes the caller touches nothing but the Payload reference
            const PktDesc& o = k.descs[i];
            const bool oldGeneric = (o.kind == K_GEN_DATA || o.kind == K_GEN_STATUS) && o.ptype >= 9;
            unsigned m = static_cast<unsigned>(r.below(3));
            d.keepHeader = true;
            d.ts = o.ts;
            d.ifid = o.ifid;
            d.vendor = o.vendor;
            d.flags = o.flags;
            d.pktSeq = o.pktSeq;
            d.pktDev = o.pktDev;
            d.pktStream = o.pktStream;
            d.typedCtor = false;
            d.retype = 0;
            d.viaCopy = false;
            if (m == 0 || !oldGeneric)
                d.viaRef = 1;
            else if (m == 1)
            {
                d.viaRef = 2;
                d.kind = o.kind;
                d.msgType = o.msgType;
                d.payload = o.payload;
                d.ptype = static_cast<uint8_t>(r.range(9, 255));
            }
            else
            {
                d.viaRef = 3;
                d.kind = o.kind == K_GEN_DATA ? K_GEN_STATUS : K_GEN_DATA;
                d.msgType = o.kind == K_GEN_DATA ? wire::MT_STATUS : wire::MT_DATA;
                d.payload = o.payload;
                d.ptype = o.ptype;
            }
            continue;
        }
        const bool oldEth = i < k.descs.size() && k.descs[i].kind == K_ETH && k.descs[i].payload.size() >= 6;
        if (d.payload.size() < 6 || d.msgType != wire::MT_DATA)
            continue;
        if (d.kind != K_ETH && !(oldEth ? r.chance(2, 3) : r.chance(1, 3)))
            continue;
        d.kind = K_ETH;
        d.ptype = wire::PT_ETHERNET;
        d.typedCtor = false;
        d.retype = 0;
        d.viaCopy = false;
        wire::set16(d.payload.data(), static_cast<uint16_t>(wire::get16(d.payload.data()) & 0x0080));
        d.payload[2] = oldEth ? k.descs[i].payload[2] : 0;
        d.payload[3] = oldEth ? k.descs[i].payload[3] : 0;
        wire::set16(d.payload.data() + 4, static_cast<uint16_t>(d.payload.size() - 6));
        if (oldEth && k.descs[i].msgType == wire::MT_DATA && k.descs[i].version == d.version && r.chance(1, 2))
        {
            // "same packet, new data": no Packet setter is called between the two encodes, only the payload is edited in place
            const PktDesc& o = k.descs[i];
            d.keepHeader = true;
            d.ts = o.ts;
            d.ifid = o.ifid;
            d.vendor = o.vendor;
            d.flags = o.flags;
            d.pktSeq = o.pktSeq;
            d.pktDev = o.pktDev;
            d.pktStream = o.pktStream;
            wire::set16(d.payload.data(), wire::get16(o.payload.data()));
        }
    }
}

std::vector<std::vector<uint8_t>> runEncodeKept(Ctx& c, Encoder& enc, Batch& b, KeptObjects& k)
{
    DataContext ctx;
    ctx.minBytesPerMessage = b.cfg.min;
    ctx.maxBytesPerMessage = b.cfg.max;
    const size_t n = b.pkts.size();
    for (size_t i = 0; i < n; ++i)
    {
        PktDesc& d = b.pkts[i];
        if (i >= k.objs.size())
        {
            k.objs.push_back(makePacket(d));
            k.refs.push_back(&k.objs.back().getPayload());
            k.descs.push_back(d);
            continue;
        }
        Packet& p = k.objs[i];
        const PktDesc& old = k.descs[i];
        const size_t len = d.payload.size();
        if (d.viaRef)
        {
            using MT = ASAM::CMP::CmpHeader::MessageType;
            if (d.viaRef == 1)
                *k.refs[i] = Payload(PayloadType(static_cast<MT>(d.msgType), d.ptype), d.payload.data(), len);
            else if (d.viaRef == 2)
                k.refs[i]->setRawPayloadType(d.ptype);
            else
                k.refs[i]->setMessageType(static_cast<MT>(d.msgType));
            k.descs[i] = d;
            c.count("kept_packets_whose_payload_was_replaced_or_retyped_through_an_earlier_reference");
            continue;
        }
        const bool ethInPlace = d.kind == K_ETH && old.kind == K_ETH && old.msgType == d.msgType && len >= 6 && old.payload.size() >= 6 && wire::get16(d.payload.data() + 4) == len - 6;
        if (ethInPlace)
        {
            // through the reference obtained earlier; the reserved bytes of the stored payload stay as they are
            d.payload[2] = old.payload[2];
            d.payload[3] = old.payload[3];
            auto& ep = static_cast<ASAM::CMP::EthernetPayload&>(*k.refs[i]);
            ep.setData(d.payload.data() + 6, static_cast<uint16_t>(len - 6));
            c.count("kept_packets_edited_in_place_through_an_earlier_payload_reference");
            if (d.keepHeader)
            {
                k.descs[i] = d;
                c.count("kept_packets_with_nothing_but_the_data_changed");
                continue;
            }
            ep.setFlags(wire::get16(d.payload.data()));
        }
        else
        {
            p.setPayload(Payload(PayloadType(static_cast<ASAM::CMP::CmpHeader::MessageType>(d.msgType), d.ptype), d.payload.data(), len));
            k.refs[i] = &p.getPayload();
        }
        p.setTimestamp(d.ts);
        p.setInterfaceId(d.ifid);
        p.setVendorId(d.vendor);
        p.setCommonFlags(d.flags);
        p.setVersion(d.version);
        p.setSequenceCounter(d.pktSeq);
        p.setDeviceId(d.pktDev);
        p.setStreamId(d.pktStream);
        k.descs[i] = d;
        c.count("kept_packets_re_encoded_after_edits");
    }
    if (n == 1 && b.overload == 3)
        return enc.encode(k.objs[0], ctx);
    return enc.encode(k.objs.begin(), k.objs.begin() + static_cast<long>(n), ctx);
}

// a caller's forward iterator that fails in the middle of a batch (legal C++: the exception propagates out of encode())
struct ThrowingIt
{
    using iterator_category = std::forward_iterator_tag;
    using value_type = Packet;
    using difference_type = std::ptrdiff_t;
    using pointer = const Packet*;
    using reference = const Packet&;
    const std::vector<Packet>* v = nullptr;
    size_t i = 0;
    size_t throwAt = 0;
    reference operator*() const
    {
        if (i == throwAt)
            throw std::runtime_error("input iterator failed");
        return (*v)[i];
    }
    ThrowingIt& operator++()
    {
        ++i;
        return *this;
    }
    ThrowingIt operator++(int)
    {
        ThrowingIt t = *this;
        ++i;
        return t;
    }
    bool operator==(const ThrowingIt& o) const
    {
        return i == o.i;
    }
    bool operator!=(const ThrowingIt& o) const
    {
        return i != o.i;
    }
};

// returns true if the call left encode() by an exception
// completedWithFault: set (with the frames) when a call returned NORMALLY although its failpoint fired - the library swallowed
// the failure, and what it returned is judged like the result of any other call
bool runAbortedEncode(Encoder& enc, const Op& o, std::vector<std::vector<uint8_t>>* completedWithFault = nullptr)
{
    std::vector<Packet> v;
    for (auto& d : o.batch.pkts)
        v.push_back(makePacket(d));
    DataContext ctx;
    ctx.minBytesPerMessage = o.batch.cfg.min;
    ctx.maxBytesPerMessage = o.kind == 5 ? static_cast<size_t>(-1) : o.batch.cfg.max;
    if (o.kind == 9)
    {
        // every overload has its own error paths: single packet, iterator range over a vector, range over shared_ptr<Packet>
        std::vector<std::shared_ptr<Packet>> sp;
        if (o.batch.overload == 2)
            for (auto& p : v)
                sp.push_back(std::make_shared<Packet>(p));
        auto call = [&](Encoder& e) {
            if (o.batch.overload == 3 && v.size() == 1)
                return e.encode(v[0], ctx);
            if (o.batch.overload == 2)
                return e.encode(sp.begin(), sp.end(), ctx);
            return e.encode(v.begin(), v.end(), ctx);
        };
        // how many allocations does this call make? (counted on a copy of the encoder, so that the real one sees the call once)
        long total = 0;
        {
            Encoder probe(enc);
            vf::fp::Count cnt;
            try
            {
                auto frames = call(probe);
                total = cnt.seen();
            }
            catch (const std::exception&)
            {
                total = cnt.seen();
            }
        }
        if (total <= 0)
            return false;
        bool threw = false;
        {
            vf::fp::FailAt f(static_cast<long>(o.throwAt % static_cast<size_t>(total)));
            try
            {
                auto frames = call(enc);
                if (f.fired() && completedWithFault)
                    *completedWithFault = std::move(frames);
                else if (f.fired())
                    frames.clear();
            }
            catch (const std::bad_alloc&)
            {
                threw = true;
            }
        }
        return threw;
    }
    try
    {
        if (o.kind == 5)
            enc.encode(v.begin(), v.end(), ctx);
        else
        {
            ThrowingIt b{&v, 0, o.throwAt}, e{&v, v.size(), o.throwAt};
            enc.encode(b, e, ctx);
        }
    }
    catch (const std::exception&)
    {
        return true;
    }
    return false;
}

void runHistory(Ctx& c, const std::vector<Op>& h, Rng& r)
{
    std::unique_ptr<Encoder> current = std::make_unique<Encoder>();
    std::vector<std::unique_ptr<Encoder>> parked;  // originals that stay alive after the history moved on to a copy of them
    // one history in four: the caller's packet objects live across the calls and are edited in place (see KeptObjects)
    const bool keptMode = r.chance(1, 4);
    KeptObjects kept;
    uint8_t keptVersion = 0;
    if (keptMode)
        c.count("histories_with_kept_packet_objects");
#define enc (*current)
    uint16_t dev = 0;
    uint8_t stream = 0;
    uint16_t last = 0;  // counter of the previously emitted frame (0 after a reset)
    uint64_t hsig = 0x1234;
    bool sawReset = false, sawWrap = false;
    size_t encodeCalls = 0, framesTotal = 0;
    int prevLastType = -1;
    bool prevEndedWithSegment = false;
    std::string log;
    int prevOp = -1;
    bool resync = false;
    for (size_t oi = 0; oi < h.size(); ++oi)
    {
        const Op& o = h[oi];
        if (o.kind < 3)
        {
            if (o.kind == 0)
            {
                enc.setDeviceId(o.dev);
                dev = o.dev;
                log += "setDeviceId(" + std::to_string(o.dev) + "); ";
            }
            else if (o.kind == 1)
            {
                enc.setStreamId(o.stream);
                stream = o.stream;
                log += "setStreamId(" + std::to_string(o.stream) + "); ";
            }
            else
            {
                enc.restart();
                log += "restart(); ";
            }
            if (enc.getDeviceId() != dev || enc.getStreamId() != stream)
                if (c.prop == "C09")
                    c.violation("C09:configured-ids-not-reported", "getDeviceId/getStreamId differ from the values set", log);
            last = 0;
            resync = false;
            sawReset = true;
            hsig = mix64(hsig, static_cast<uint64_t>(o.kind));
            prevOp = o.kind;
            continue;
        }
        if (o.kind == 6)
        {
            // continue on a copy of the encoder (copy-construct, then copy-assign back): configuration and counter are part of its value
            Encoder copy(enc);
            Encoder other;
            other.setDeviceId(static_cast<uint16_t>(~dev));
            other = copy;
            enc = other;
            log += "continue-on-copy; ";
            c.count("encoder_copies");
            prevOp = 6;
            continue;
        }
        if (o.kind == 7 || o.kind == 8)
        {
            // the history continues on a copy; the original stays alive next to it (7) or is destroyed at once (8):
            // a copy must not refer to anything inside the object it was copied from
            auto next = std::make_unique<Encoder>(*current);
            if (o.kind == 7)
                parked.push_back(std::move(current));
            current = std::move(next);
            log += o.kind == 7 ? "continue-on-copy(original kept); " : "continue-on-copy(original destroyed); ";
            c.count("encoder_copies_continued_next_to_or_after_the_original");
            prevOp = 6;
            continue;
        }
        if (o.kind == 4 || o.kind == 5 || o.kind == 9)
        {
            c.note(log + (o.kind == 4 ? "encode(iterator throws at packet " + std::to_string(o.throwAt) + ")" : (o.kind == 5 ? std::string("encode(max=SIZE_MAX)") : "encode(" + describe(o.batch, dev, stream) + ") with allocation number " + std::to_string(o.throwAt) + " (modulo the call's allocation count) failing")));
            std::vector<std::vector<uint8_t>> swallowed;
            bool swallowedSet = false;
            bool threw;
            {
                std::vector<std::vector<uint8_t>> tmp;
                tmp.push_back({0xEE});  // sentinel: replaced only if the call completed with its failpoint fired
                threw = runAbortedEncode(enc, o, &tmp);
                if (!(tmp.size() == 1 && tmp[0].size() == 1 && tmp[0][0] == 0xEE))
                {
                    swallowed = std::move(tmp);
                    swallowedSet = true;
                }
            }
            if (swallowedSet)
            {
                // an allocation failed inside encode() and the call still returned frames: they owe everything a normal call owes
                std::string input = log + "encode(" + describe(o.batch, dev, stream) + ") during which allocation number " + std::to_string(o.throwAt) + " (modulo the call's count) failed; the call returned normally";
                Reporter rep{c, input};
                EncodeResult res = analyse(c, rep, o.batch, std::move(swallowed), dev, stream, r, true);
                (void) res;
                c.count("encode_calls_that_completed_although_an_allocation_failed");
            }
            log += o.kind == 4 ? "encode(ITERATOR THROWS at " + std::to_string(o.throwAt) + " of " + std::to_string(o.batch.pkts.size()) + " pkts,max=" + std::to_string(o.batch.cfg.max) + "); "
                               : (o.kind == 5 ? "encode(" + std::to_string(o.batch.pkts.size()) + " pkts,max=SIZE_MAX -> throws); "
                                              : "encode(" + std::to_string(o.batch.pkts.size()) + " pkts,max=" + std::to_string(o.batch.cfg.max) + ", ALLOCATION " + std::to_string(o.throwAt) + " FAILS); ");
            if (threw)
                c.count(o.kind == 9 ? "encode_calls_left_by_allocation_failure" : "encode_calls_left_by_exception");
            // the frames of an aborted call were never emitted: the next emitted frame re-synchronises the C09 shadow counter
            resync = true;
            hsig = mix64(hsig, 40 + static_cast<uint64_t>(o.kind));
            prevOp = o.kind;
            if (!o.batch.pkts.empty())
            {
                prevLastType = o.batch.pkts[std::min(o.throwAt, o.batch.pkts.size() - 1)].msgType;
                prevEndedWithSegment = false;
            }
            continue;
        }
        Batch b = o.batch;
        if (keptMode && b.overload != 3)
            b.overload = 0;
        if (keptMode && !b.pkts.empty())
        {
            // (all packets of a batch carry one version; a caller that keeps its objects keeps their version too)
            if (!keptVersion)
                keptVersion = b.pkts[0].version;
            for (auto& d : b.pkts)
                d.version = keptVersion;
        }
        if (keptMode && b.pkts.size() <= 64)
            adaptBatchToKept(b, kept, r);
        std::string input = log + (keptMode ? "[caller keeps its packet objects across calls and edits them in place] " : "") + "encode(" + describe(b, dev, stream) + ")";
        if (log.size() < 3000)
            log += "encode(" + std::to_string(b.pkts.size()) + " pkts,max=" + std::to_string(b.cfg.max) + ",min=" + std::to_string(b.cfg.min) + "); ";
        c.note(input);
        Reporter rep{c, input};
        auto frames = (keptMode && b.pkts.size() <= 64 && (b.overload == 0 || b.overload == 3)) ? runEncodeKept(c, enc, b, kept) : runEncode(enc, b);
        EncodeResult res = analyse(c, rep, b, std::move(frames), dev, stream, r, framesTotal < 2000);
        // C09 shadow state
        if (resync && !res.frames.empty() && res.frames[0].size() >= 8)
        {
            last = static_cast<uint16_t>(wire::get16(res.frames[0].data() + 6) - 1);
            resync = false;
        }
        uint16_t before = last;
        last = checkHeaders(rep, b, res.frames, res.walk, dev, stream, last);
        if (!res.frames.empty())
        {
            if (enc.getSequenceCounter() != last)
                rep.v("C09", "C09:reported-counter-differs-from-last-frame", "getSequenceCounter()=" + std::to_string(enc.getSequenceCounter()) + ", last frame carries " + std::to_string(last));
            if (static_cast<size_t>(before) + res.frames.size() > 65535)
            {
                sawWrap = true;
                c.count("counter_wraps");
            }
            const char* region = before >= 65000 ? "pre-wrap" : (static_cast<size_t>(before) + res.frames.size() > 65535 ? "wrap" : (before < 100 ? "low" : "mid"));
            c.feature("c09_opbigram_region", std::to_string(prevOp) + ">3@" + region);
        }
        // C10: a fresh encoder with the same ids must produce the same frames modulo a constant counter offset
        {
            Encoder fresh;
            fresh.setDeviceId(dev);
            fresh.setStreamId(stream);
            auto ff = runEncode(fresh, b);
            char buf[256];
            if (ff.size() != res.frames.size())
            {
                snprintf(buf, sizeof buf, "call %zu of the history: used encoder produced %zu frames, fresh encoder %zu", encodeCalls + 1, res.frames.size(), ff.size());
                rep.v("C10", "C10:frame-count-differs-from-fresh-encoder", buf);
            }
            else
            {
                bool offKnown = false;
                uint16_t off = 0;
                for (size_t fi = 0; fi < ff.size(); ++fi)
                {
                    const auto& a = res.frames[fi];
                    const auto& f = ff[fi];
                    bool same = a.size() == f.size() && a.size() >= 8 && memcmp(a.data(), f.data(), 6) == 0 &&
                                memcmp(a.data() + 8, f.data() + 8, a.size() - 8) == 0;
                    if (!same)
                    {
                        snprintf(buf, sizeof buf, "call %zu of the history: frame %zu differs from the fresh encoder's (sizes %zu / %zu)", encodeCalls + 1, fi, a.size(), f.size());
                        rep.v("C10", "C10:frame-bytes-differ-from-fresh-encoder", buf);
                        break;
                    }
                    uint16_t d = static_cast<uint16_t>(wire::get16(a.data() + 6) - wire::get16(f.data() + 6));
                    if (offKnown && d != off)
                    {
                        snprintf(buf, sizeof buf, "call %zu: counter offset to the fresh encoder changes from %u to %u at frame %zu", encodeCalls + 1, off, d, fi);
                        rep.v("C10", "C10:counter-offset-not-constant", buf);
                        break;
                    }
                    off = d;
                    offKnown = true;
                }
            }
            int firstType = b.pkts.empty() ? -1 : b.pkts.front().msgType;
            bool needsSeg = false;
            for (auto& p : b.pkts)
                if (p.payload.size() + 24 > b.cfg.max)
                    needsSeg = true;
            if (encodeCalls >= 1)
            {
                bool nt = false;
                uint64_t bs = batchSignature(b, nt, res.walk);
                uint64_t t = mix64(mix64(static_cast<uint64_t>(prevLastType + 1), static_cast<uint64_t>(firstType + 1)), (prevEndedWithSegment ? 2 : 0) | (needsSeg ? 1 : 0));
                if (c.prop == "C10")
                {
                    c.sig(mix64(t, bs));
                    c.feature("c10_transition", std::to_string(prevLastType) + ">" + std::to_string(firstType) + (prevEndedWithSegment ? ":prevseg" : ":prevplain") + (needsSeg ? ":nextseg" : ":nextplain"));
                }
            }
            prevLastType = b.pkts.empty() ? prevLastType : b.pkts.back().msgType;
            if (!b.pkts.empty())
                prevEndedWithSegment = b.pkts.back().payload.size() + 24 > b.cfg.max;
        }
        bool nt = false;
        hsig = mix64(hsig, batchSignature(b, nt, res.walk));
        if (c.prop != "C09" && c.prop != "C10" && nt)
            c.sig(batchSignature(b, nt, res.walk));
        ++encodeCalls;
        framesTotal += res.frames.size();
        prevOp = 3;
    }
    if (c.prop == "C09" && encodeCalls >= 2 && framesTotal >= 2 && (sawReset || sawWrap))
        c.sig(hsig);
    c.count("history_encode_calls", encodeCalls);
    c.count("histories");
    c.sample("history: " + log + " -> " + std::to_string(framesTotal) + " frames", 3);
#undef enc
}

long countCases(Ctx& c)
{
    static const char* mine[] = {"C01", "C07", "C08", "C09", "C10", "C12"};
    bool ok = false;
    for (auto* m : mine)
        if (c.prop == m)
            ok = true;
    return ok ? plan(c).total() : -1;
}

void runCase(Ctx& c, long idx)
{
    if (idx == 0)
        codecOutsideMainCase(c);
    Plan p = plan(c);
    long i = idx;
    Batch b;
    auto ids = [&](Rng& r, uint16_t& dev, uint8_t& stream) {
        dev = r.chance(1, 3) ? r.pick<uint16_t>({0, 1, 0xFFFF, 0x0100, 0x00FF}) : static_cast<uint16_t>(r.next());
        stream = r.chance(1, 3) ? r.pick<uint8_t>({0, 1, 255}) : r.byte();
    };
    uint16_t dev;
    uint8_t stream;
    if (i < p.sweep1)
    {
        Rng r = c.fixedRng(idx);
        ids(r, dev, stream);
        sweep1(i, b, r);
        runBatchCase(c, b, r, dev, stream);
        return;
    }
    i -= p.sweep1;
    if (i < p.sweep2)
    {
        Rng r = c.fixedRng(idx);
        ids(r, dev, stream);
        sweep2(i, c.thorough(), b, r);
        runBatchCase(c, b, r, dev, stream);
        return;
    }
    i -= p.sweep2;
    if (i < p.minSweep)
    {
        Rng r = c.fixedRng(idx);
        ids(r, dev, stream);
        minSweep(i, b, r);
        runBatchCase(c, b, r, dev, stream);
        return;
    }
    i -= p.minSweep;
    if (i < p.topSweep)
    {
        Rng r = c.fixedRng(idx);
        ids(r, dev, stream);
        topSweep(i, b, r);
        runBatchCase(c, b, r, dev, stream);
        c.count("top_of_range_cases");
        return;
    }
    i -= p.topSweep;
    if (i < p.countSweep)
    {
        Rng r = c.fixedRng(idx);
        ids(r, dev, stream);
        countSweep(i, b, r);
        runBatchCase(c, b, r, dev, stream);
        c.count("message_count_boundary_cases");
        return;
    }
    i -= p.countSweep;
    if (i < p.kinds)
    {
        Rng r = c.fixedRng(idx);
        ids(r, dev, stream);
        if (c.prop == "C01" && i >= K_COUNT * 2 + 18)
            return;  // message type 'undefined' is outside C01's domain
        kindCase(i, b, r);
        runBatchCase(c, b, r, dev, stream);
        return;
    }
    i -= p.kinds;
    if (i < p.empty)
    {
        // empty batches on fresh and on used encoders, all overloads that can be empty
        Rng r = c.fixedRng(idx);
        std::vector<Op> h;
        if (i >= 2)
        {
            Op o;
            o.batch = smallBatch(r, 2);
            h.push_back(o);
        }
        Op e;
        e.batch.cfg.max = 100;
        e.batch.cfg.min = (i % 2) ? 60 : 0;
        e.batch.overload = static_cast<int>(i % 3);
        h.push_back(e);
        Op o2;
        o2.batch = smallBatch(r, 1);
        h.push_back(o2);
        runHistory(c, h, r);
        c.count("empty_batches");
        return;
    }
    i -= p.empty;
    if (i < p.randomBatches)
    {
        Rng r = c.caseRng(idx);
        ids(r, dev, stream);
        b = genBatch(r, c.thorough() ? 40 : 12, r.chance(1, 40), c.prop != "C01");
        runBatchCase(c, b, r, dev, stream);
        return;
    }
    i -= p.randomBatches;
    if (i < p.histDet)
    {
        Rng r = c.fixedRng(idx);
        long j = i;
        if (p.histDet == kHistDetPairs + 7)
            j = (i < kHistDetPairs) ? i + kHistDetSpecial : 6 + (i - kHistDetPairs);  // batch properties: the pair histories, then the aborted-call histories 6..12
        runHistory(c, detHistory(j, r), r);
        return;
    }
    i -= p.histDet;
    if (i < p.histRandom)
    {
        Rng r = c.caseRng(idx);
        runHistory(c, randomHistory(c, r), r);
        return;
    }
    i -= p.histRandom;
    if (i < p.bigMax)
    {
        Rng r = (i < kBigMax) ? c.fixedRng(idx) : c.caseRng(idx);
        ids(r, dev, stream);
        bigMaxCase(i, b, r);
        runBatchCase(c, b, r, dev, stream);
        c.count("frame_sizes_above_64KiB_cases");
        return;
    }
    i -= p.bigMax;
    {
        Rng r = c.fixedRng(idx);
        ids(r, dev, stream);
        wrapAlignCase(i, b, r);
        runBatchCase(c, b, r, dev, stream);
        c.count("segmented_packets_starting_at_counters_around_the_wrap");
    }
}

}  // namespace

int main(int argc, char** argv)
{
    return driverMain(argc, argv, countCases, runCase);
}
