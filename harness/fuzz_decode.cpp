// libFuzzer target (thorough tier of C02): input = sequence of frames, each prefixed by a 2-byte little-endian
// length, fed to ONE decoder (history); returned packets are checked, fully read, and re-read after the
// inputs are freed and the decoder is destroyed. ASan + UBSan + LeakSanitizer are the monitors.
#include <asam_cmp/decoder.h>

#include "accessors.h"
#include "canon.h"
#include "dec_c05.h"
#include "fuzz_common.h"
#include "snapshot.h"

using namespace vf;

extern "C" int LLVMFuzzerInitialize(int*, char***)
{
    const char* dir = getenv("VF_WRITE_CORPUS");
    if (dir)
    {
        size_t n = 0;
        auto one = [&](const std::vector<Bytes>& frames) {
            Bytes out;
            for (auto& f : frames)
            {
                out.push_back(static_cast<uint8_t>(f.size()));
                out.push_back(static_cast<uint8_t>(f.size() >> 8));
                out.insert(out.end(), f.begin(), f.end());
            }
            writeCorpusFile(dir, n++, out);
        };
        for (auto& c : canonicalFrames())
            one({c.frame});
        Rng r(7);
        for (int i = 0; i < 12; ++i)
        {
            c05::History h;
            c05::genStream(r, h, 0, 1, 0, 2, static_cast<uint16_t>(65534 + i), 40);
            c05::genStream(r, h, 1, 1, 1, 2, 5, 40);
            auto order = c05::randomMerge(r, h);
            std::vector<size_t> pos(2, 0);
            std::vector<Bytes> fs;
            for (int ep : order)
                fs.push_back(h.streams[static_cast<size_t>(ep)].frames[pos[static_cast<size_t>(ep)]++].raw);
            one(fs);
        }
    }
    return 0;
}

extern "C" int LLVMFuzzerTestOneInput(const uint8_t* data, size_t size)
{
    struct Held
    {
        std::shared_ptr<ASAM::CMP::Packet> p;
        PacketSnap snap;
        uint64_t digest;
    };
    std::vector<Held> held;
    {
        ASAM::CMP::Decoder dec;
        size_t off = 0;
        while (off + 2 <= size)
        {
            size_t n = data[off] | (static_cast<size_t>(data[off + 1]) << 8);
            off += 2;
            if (n > size - off)
                n = size - off;
            uint8_t* heap = new uint8_t[n ? n : 1];
            if (n)
                memcpy(heap, data + off, n);
            auto got = dec.decode(heap, n);
            delete[] heap;
            off += n;
            if (got.size() > n / 12)
                fuzzViolation("C02:too-many-packets", std::to_string(got.size()) + " packets for " + std::to_string(n) + " bytes");
            for (auto& p : got)
            {
                if (!p)
                    fuzzViolation("C02:null-packet-returned", "null element");
                AccessResult a;
                accessPacketHeader(a, *p);
                accessTyped(a, p->getPayload());
                if (!a.badView.empty())
                    fuzzViolation("C02:returned-packet-view-outside-its-data", a.detail);
                if (held.size() < 64)
                    held.push_back({p, snapPacket(*p), a.digest});
            }
        }
    }  // decoder destroyed
    for (auto& h : held)
    {
        AccessResult a;
        accessPacketHeader(a, *h.p);
        accessTyped(a, h.p->getPayload());
        if (snapPacket(*h.p) != h.snap || a.digest != h.digest)
            fuzzViolation("C02:returned-packet-changed-after-input-released", h.snap.str());
    }
    return 0;
}
