// drv_memsafe: C02 (decoding arbitrary bytes is memory safe, terminates, returned packets own their data)
//              C03 (payloads accepted by validation expose only in-bounds data)
// Monitors: ASan (vector annotations) + UBSan + LeakSanitizer, guard-paged read-only inputs, explicit view
// range oracle, ownership snapshots taken before and after the input / decoder are gone.
#define VF_FAILPOINT_IMPL
#include <sys/wait.h>
#include <csignal>
#include "failpoint.h"
#include <sys/mman.h>

#include <asam_cmp/decoder.h>
#include <asam_cmp/tecmp_decoder.h>

#include "accessors.h"
#include "canon.h"
#include "dec_c04.h"
#include "dec_c05.h"
#include "dec_common.h"

using namespace vf;
using ASAM::CMP::Decoder;
using ASAM::CMP::Packet;

namespace {

// input placed so that its last byte is followed by a PROT_NONE page; its own pages are read-only
struct GuardBuf
{
    uint8_t* base = nullptr;
    size_t mapLen = 0;
    uint8_t* data = nullptr;
    explicit GuardBuf(const Bytes& b)
    {
        const size_t pg = 4096;
        size_t pages = (b.size() + pg - 1) / pg;
        if (pages == 0)
            pages = 1;
        mapLen = (pages + 1) * pg;
        void* m = mmap(nullptr, mapLen, PROT_READ | PROT_WRITE, MAP_PRIVATE | MAP_ANONYMOUS, -1, 0);
        if (m == MAP_FAILED)
        {
            perror("mmap");
            _exit(2);
        }
        base = static_cast<uint8_t*>(m);
        data = base + pages * pg - b.size();
        if (!b.empty())
            memcpy(data, b.data(), b.size());
        mprotect(base, pages * pg, PROT_READ);
        mprotect(base + pages * pg, pg, PROT_NONE);
    }
    ~GuardBuf()
    {
        munmap(base, mapLen);
    }
};

struct Held
{
    PacketPtr p;
    PacketSnap snap;
    uint64_t digest;
};

struct Session
{
    Ctx& c;
    std::unique_ptr<Decoder> dec{new Decoder};
    std::vector<Held> held;
    std::vector<Bytes> fed;
    size_t counter = 0;

    void inspect(std::vector<PacketPtr>& got, const Bytes& f, const char* path)
    {
        auto input = [&]() { return "history=" + describeFrames(fed, fed.size() - 1, 600); };
        char buf[200];
        if (got.size() > f.size() / 12)
        {
            snprintf(buf, sizeof buf, "%s: %zu packets returned for %zu input bytes (> 1 per 12 bytes)", path, got.size(), f.size());
            c.violation("C02:too-many-packets", buf, input());
        }
        for (auto& p : got)
        {
            if (!p)
            {
                c.violation("C02:null-packet-returned", std::string(path) + ": null element in the returned vector", input());
                continue;
            }
            AccessResult a;
            accessPacketHeader(a, *p);
            const ASAM::CMP::Payload& pl = p->getPayload();  // UBSan 'null' fires here if the packet has no payload object
            fold(a, static_cast<uint8_t>(p->getMessageType()));
            fold(a, p->getPayloadType());
            const char* cls = accessTyped(a, pl);
            if (!a.badView.empty())
            {
                if (c.prop == "C03")
                    c.violation("C03:view-outside-payload", std::string("decoded ") + (cls ? cls : "?") + " packet: " + a.detail, input());
                else
                    c.violation("C02:returned-packet-view-outside-its-data", a.detail, input());
            }
            if (cls)
                c.count(std::string("decoded_valid_typed_") + cls);
            if (held.size() < 400)
                held.push_back({p, snapPacket(*p), a.digest});
            c.count("packets_returned");
        }
    }

    void feed(const Bytes& f)
    {
        if (counter % 97 == 50)
        {
            // a null pointer with any size and a valid pointer with size 0 are byte strings of length 0 as far as the caller can tell
            auto a = dec->decode(nullptr, 0);
            auto b = dec->decode(nullptr, f.size());
            uint8_t one = 1;
            auto d = dec->decode(&one, 0);
            if (!a.empty() || !b.empty() || !d.empty())
                c.violation("C02:too-many-packets", "packets returned for an empty input", "decode(nullptr, n) / decode(p, 0)");
            c.count("null_or_empty_inputs", 3);
        }
        fed.push_back(f);
        c.note("history=" + describeFrames(fed, fed.size() - 1));
        ++c.evaluations;
        std::vector<PacketPtr> got;
        if (counter++ % 4 == 3)
        {
            // exact-size heap block: ASan red zones + memcpy interceptors
            got = decodeCopy(*dec, f);
            c.count("inputs_in_exact_heap_block");
        }
        else
        {
            GuardBuf g(f);
            got = dec->decode(g.data, f.size());
            c.count("inputs_guard_paged_readonly");
        }  // input released here
        inspect(got, f, "Decoder::decode");
        if (!f.empty() && f[0] == 0 && (counter % 3 == 0))
        {
            GuardBuf g(f);
            auto t = TECMP::Decoder::Decode(g.data, f.size());
            inspect(t, f, "TECMP::Decoder::Decode");
        }
    }

    // a decode call during which allocation number k of that call fails (std::bad_alloc leaves decode() half-way); optionally the
    // same frame is offered again. Part of "any history of earlier decode calls": whatever the cut-short call left behind, the
    // calls after it owe the same memory safety and the same ownership of what they return.
    void feedWithAllocationFailure(const Bytes& f, long k, bool again)
    {
        fed.push_back(f);
        c.note("history=" + describeFrames(fed, fed.size() - 1) + " (allocation " + std::to_string(k) + " of this decode call fails)");
        ++c.evaluations;
        std::vector<PacketPtr> got;
        bool threw = false;
        {
            uint8_t* heap = static_cast<uint8_t*>(malloc(f.size() ? f.size() : 1));
            memcpy(heap, f.data(), f.size());
            {
                vf::fp::FailAt fa(k);
                try
                {
                    got = dec->decode(heap, f.size());
                }
                catch (const std::bad_alloc&)
                {
                    threw = true;
                }
            }
            free(heap);
        }
        c.count(threw ? "decode_calls_cut_short_by_an_allocation_failure" : "allocation_failpoints_beyond_the_calls_last_allocation");
        if (!threw)
            inspect(got, f, "Decoder::decode");
        else if (again)
            feed(f);
    }

    // ownership: after the inputs are gone, more frames were decoded and the decoder is destroyed,
    // every packet returned earlier must read back exactly as it did when it was returned
    void finish()
    {
        dec.reset();
        for (auto& h : held)
        {
            PacketSnap s = snapPacket(*h.p);
            AccessResult a;
            accessPacketHeader(a, *h.p);
            fold(a, static_cast<uint8_t>(h.p->getMessageType()));
            fold(a, h.p->getPayloadType());
            accessTyped(a, h.p->getPayload());
            if (s != h.snap || a.digest != h.digest)
                c.violation("C02:returned-packet-changed-after-input-released", "packet read back differently after the input buffer / decoder were released: was " + h.snap.str() + " now " + s.str(),
                            "history=" + describeFrames(fed, fed.size() - 1, 300));
            c.count("ownership_rechecks");
        }
        held.clear();
    }
};

const std::vector<Canon>& canon()
{
    static const std::vector<Canon> v = canonicalFrames();
    return v;
}

constexpr long kFieldsPerFrame = 96;

// deterministic: canonical frame j: part 0 = every truncation length (on one decoder = a history), parts 1.. = field f set to hostile values
void canonCase(Ctx& c, long idx)
{
    const auto& cf = canon();
    long j = idx / (kFieldsPerFrame + 1);
    long part = idx % (kFieldsPerFrame + 1);
    const Bytes& base = cf[static_cast<size_t>(j)].frame;
    Session s{c};
    if (part == 0)
    {
        for (size_t n = 0; n <= base.size(); ++n)
            s.feed(Bytes(base.begin(), base.begin() + static_cast<long>(n)));
        for (size_t pad : {size_t(1), size_t(11), size_t(12), size_t(16), size_t(28), size_t(64)})
        {
            Bytes t = base;
            t.insert(t.end(), pad, 0);
            s.feed(t);
        }
        s.finish();
        c.feature("c02_family_truncated", cf[static_cast<size_t>(j)].family);
        c.sig(mix64(static_cast<uint64_t>(j), 0));
        return;
    }
    // field list: every byte of the first 96 bytes as an 8-bit field, and every even offset as a 16-bit big-endian field
    size_t off = static_cast<size_t>(part - 1);
    if (off >= base.size())
        return;
    const size_t n = base.size();
    const uint16_t vals[] = {0, 1, static_cast<uint16_t>(n - 1), static_cast<uint16_t>(n), static_cast<uint16_t>(n + 1), 0x7F, 0x80, 0xFF, 0xFFFF,
                             static_cast<uint16_t>(n - 8), static_cast<uint16_t>(n - 24), static_cast<uint16_t>(n - 28), static_cast<uint16_t>(n - 29), 0x0C, 0x04, 0x08, 0x40};
    for (uint16_t v : vals)
    {
        Bytes t = base;
        t[off] = static_cast<uint8_t>(v);
        s.feed(t);
        if (off + 1 < t.size())
        {
            Bytes u = base;
            wire::set16(u.data() + off, v);
            s.feed(u);
            // and the same corruption on a truncated copy: inner length larger than what is left
            u.resize(off + 2 + (u.size() - off - 2) / 2);
            s.feed(u);
        }
    }
    s.finish();
    c.feature("c02_family_field_mutated", cf[static_cast<size_t>(j)].family);
    c.sig(mix64(static_cast<uint64_t>(j), static_cast<uint64_t>(part)));
}

// deterministic: TECMP message type mt x data types x sizes 28..52 (random content, length field consistent or hostile)
void tecmpSweep(Ctx& c, long mt)
{
    Rng r = c.fixedRng(mt, 21);
    static const uint16_t dts[] = {0, 1, 2, 3, 4, 8, 0x10, 0x20, 0x80, 0xFF00, 0x00FF};
    Session s{c};
    for (uint16_t dt : dts)
        for (size_t size = 28; size <= 52; ++size)
        {
            Bytes f = r.bytes(size);
            f[0] = 0;
            f[5] = static_cast<uint8_t>(mt);
            wire::set16(f.data() + 6, dt);
            unsigned w = static_cast<unsigned>(r.below(4));
            uint16_t len = static_cast<uint16_t>(size - 28);
            if (w == 1 && len > 0)
                len = static_cast<uint16_t>(r.range(1, len));
            else if (w == 2)
                len = static_cast<uint16_t>(len + 1);
            wire::set16(f.data() + 24, len);
            if (size > 33 && r.chance(1, 2))
                f[32] = static_cast<uint8_t>(r.pick<uint8_t>({0, 1, 8, 9, 64, 65, 0xFF, static_cast<uint8_t>(size - 33), static_cast<uint8_t>(size - 32)}));  // CAN length byte
            if (size > 29 && r.chance(1, 2))
                f[29] = static_cast<uint8_t>(r.pick<uint8_t>({0, 1, 8, 9, 0xFF, static_cast<uint8_t>(size - 30), static_cast<uint8_t>(size - 29)}));  // LIN length byte
            s.feed(f);
        }
    s.finish();
    c.sig(mix64(0x7ec, static_cast<uint64_t>(mt)));
    c.count("tecmp_message_types_swept");
}

Bytes genHostileFrame(Ctx& c, Rng& r, std::string& kind)
{
    unsigned w = static_cast<unsigned>(r.below(100));
    Bytes f;
    if (w < 30)
    {
        const auto& cf = canon();
        const Canon& b = cf[r.below(cf.size())];
        f = b.frame;
        kind = b.family;
    }
    else if (w < 55)
    {
        c04::FrameSpec s = c04::genSpec(r, -1, r.below(5));
        if (r.chance(1, 3) && !s.msgs.empty())
            s.msgs.back().flags |= r.pick<uint8_t>({wire::SEG_FIRST, wire::SEG_MID, wire::SEG_LAST});
        s.dev = pickDevice(r);
        s.stream = pickStream(r);
        f = buildFrame(s.ver, s.dev, s.mt, s.stream, s.seq, s.msgs);
        kind = "generated-cmp";
    }
    else if (w < 75)
    {
        f = genTecmpFrame(r);
        kind = "generated-tecmp";
    }
    else if (w < 90)
    {
        f = r.bytes(r.chance(1, 30) ? r.logRange(1, 65536) : r.below(80));
        if (r.chance(1, 2) && !f.empty())
            f[0] = r.chance(1, 2) ? 0 : 1;
        kind = "random-bytes";
        return f;
    }
    else
    {
        // large well-formed frame close to 64 KiB
        uint8_t mt;
        GMsg m = genMsg(r, K_ETH, r.range(30000, 65535), mt);
        std::vector<GMsg> ms = {m};
        if (r.chance(1, 2))
        {
            // several large messages: the frame exceeds 64 KiB
            size_t k = r.range(1, 3);
            for (size_t i = 0; i < k; ++i)
                ms.push_back(genMsg(r, r.chance(1, 2) ? K_ETH : K_GEN_DATA, r.chance(1, 3) ? r.range(1, 40) : r.range(20000, 65535), mt));
        }
        f = buildFrame(1, pickDevice(r), wire::MT_DATA, pickStream(r), static_cast<uint16_t>(r.next()), ms);
        kind = ms.size() > 1 ? "cmp-longer-than-64KiB" : "large-cmp";
    }
    size_t muts = r.below(4);
    for (size_t i = 0; i < muts; ++i)
        kind += "+" + mutateFrame(f, r);
    return f;
}

void randomHistory(Ctx& c, long idx)
{
    Rng r = c.caseRng(idx);
    Session s{c};
    size_t n = r.range(1, 40);
    // half of the histories run an interleaved segment script underneath so that reassembly state exists
    c05::History h;
    std::vector<int> order;
    std::vector<size_t> pos;
    if (r.chance(1, 2))
    {
        size_t k = r.range(1, 3);
        for (size_t e = 0; e < k; ++e)
            c05::genStream(r, h, static_cast<int>(e), pickDevice(r), pickStream(r), r.range(1, 4), static_cast<uint16_t>(r.next()), r.chance(1, 25) ? 30000 : 80);
        order = c05::randomMerge(r, h);
        pos.assign(k, 0);
    }
    size_t oi = 0;
    uint64_t sig = 0x2;
    for (size_t i = 0; i < n; ++i)
    {
        if (oi < order.size() && r.chance(1, 2))
        {
            int ep = order[oi++];
            Bytes f = h.streams[static_cast<size_t>(ep)].frames[pos[static_cast<size_t>(ep)]++].raw;
            if (r.chance(1, 4))
                mutateFrame(f, r);
            if (r.chance(1, 8))
                s.feedWithAllocationFailure(f, static_cast<long>(r.below(10)), r.chance(1, 2));
            else
                s.feed(f);
            continue;
        }
        std::string kind;
        Bytes f = genHostileFrame(c, r, kind);
        size_t before = c.counters["packets_returned"];
        s.feed(f);
        size_t accepted = c.counters["packets_returned"] - before;
        sig = mix64(sig, mix64(hashStr(kind), accepted > 3 ? 3 : accepted));
        c.sig(mix64(hashStr(kind), accepted > 3 ? 3 : accepted));
    }
    s.finish();
    c.count("histories");
    if (c.samples.size() < 3 && !s.fed.empty())
        c.sample("history of " + std::to_string(s.fed.size()) + " frames, first=" + hex(s.fed[0], 64), 3);
}

// reassembly whose declared segment bytes add up to more than 65535 (the 16-bit length of the reassembled message
// wraps): outside the domain of the reassembly properties, but C02 quantifies over ALL histories of byte strings
constexpr long kOverflowCases = 24;
void overflowCase(Ctx& c, long j)
{
    Rng r = c.fixedRng(j, 23);
    Session s{c};
    uint16_t dev = pickDevice(r);
    uint8_t stream = pickStream(r);
    uint16_t seq = static_cast<uint16_t>(r.next());
    std::vector<size_t> sizes;
    switch (j % 8)
    {
        case 0: sizes = {40000, 30000}; break;
        case 1: sizes = {65535, 1, 1}; break;
        case 2: sizes = {65519, 16, 16, 16}; break;
        case 3: sizes.assign(46, 1500); break;
        case 4: sizes = {30000, 30000, 30000, 30000, 30000}; break;
        case 5: sizes = {1, 65535, 65535}; break;
        case 6: sizes = {65520, 15, 1, 0, 65535}; break;
        default:
        {
            size_t total = 0;
            while (total < 140000)
            {
                size_t n = r.chance(1, 3) ? r.range(20000, 65535) : r.range(0, 3000);
                sizes.push_back(n);
                total += n;
            }
            break;
        }
    }
    bool eth = (j / 8) == 1;
    for (size_t i = 0; i < sizes.size(); ++i)
    {
        GMsg m;
        m.ts = r.next();
        m.idWord = static_cast<uint32_t>(r.next());
        m.ptype = eth ? wire::PT_ETHERNET : 0x31;
        m.flags = (i == 0 ? wire::SEG_FIRST : (i + 1 == sizes.size() ? wire::SEG_LAST : wire::SEG_MID));
        m.payload = r.bytes(sizes[i]);
        Bytes tr;
        if ((j / 8) == 2 && sizes[i] < 60000)
            tr = Bytes(r.range(1, 40), 0xEE);
        s.feed(buildFrame(1, dev, wire::MT_DATA, stream, seq++, {m}, tr));
    }
    // and an ordinary message afterwards on the same endpoint
    GMsg u;
    u.ptype = 0x31;
    u.payload = r.bytes(10);
    s.feed(buildFrame(1, dev, wire::MT_DATA, stream, seq++, {u}));
    s.finish();
    c.sig(mix64(0x0f10, static_cast<uint64_t>(j)));
    c.count("reassembly_totals_beyond_65535");
}

// typed payloads at their structural boundaries, as the LAST message of a frame that ends exactly with the payload
// (so that a validator or accessor reading one byte too far leaves the caller's buffer): every truncation of a
// consistent payload and every inner length field on a value lattice
constexpr long kTypedBoundaryCases = 7 * 16;
void typedBoundaryCase(Ctx& c, long j)
{
    static const Kind kinds[7] = {K_CAN, K_CANFD, K_LIN, K_ETH, K_ANALOG, K_CM, K_IF};
    Kind kd = kinds[j % 7];
    long variant = j / 7;
    Rng r = c.fixedRng(j, 29);
    Session s{c};
    Bytes base = genPayload(kd, kindMinLen(kd) + static_cast<size_t>(variant) * 3 + r.below(3), r);
    if (kd == K_IF)
    {
        // odd and even stream-id counts, with and without vendor data
        wire::If f;
        f.interfaceStatus = static_cast<uint8_t>(r.below(3));
        f.streamIds = r.bytes(static_cast<size_t>(variant));
        f.vendorData = r.bytes((variant % 4 == 3) ? r.range(1, 6) : 0);
        base = f.serialize();
    }
    uint8_t mt = kindMsgType(kd, r);
    uint8_t pt = kindPayloadType(kd, r);
    auto frameOf = [&](const Bytes& payload, bool withPrefixMessage) {
        std::vector<GMsg> ms;
        if (withPrefixMessage)
        {
            uint8_t dummy;
            ms.push_back(genMsg(r, kd, 1, dummy));
        }
        GMsg m;
        m.ts = r.next();
        m.idWord = static_cast<uint32_t>(r.next());
        m.ptype = pt;
        m.payload = payload;
        ms.push_back(m);
        return buildFrame(1, 1, mt, 0, static_cast<uint16_t>(r.next()), ms);
    };
    for (size_t n = 0; n <= base.size(); ++n)
    {
        Bytes t(base.begin(), base.begin() + static_cast<long>(n));
        if (t.empty())
            continue;
        s.feed(frameOf(t, n % 2));
    }
    for (auto& lf : lengthFieldsOf(kd, base))
    {
        size_t rem = base.size() - (lf.first + static_cast<size_t>(lf.second));
        for (uint32_t v : lengthLattice(lf.second, rem, false))
        {
            Bytes m = base;
            if (lf.second == 1)
                m[lf.first] = static_cast<uint8_t>(v);
            else
                wire::set16(m.data() + lf.first, static_cast<uint16_t>(v));
            s.feed(frameOf(m, false));
            // and with the tail cut so that the field points just past what is left
            if (m.size() > lf.first + static_cast<size_t>(lf.second) + 1 && (v % 3 == 0))
            {
                m.resize(lf.first + static_cast<size_t>(lf.second) + (v % (rem + 1)));
                s.feed(frameOf(m, false));
            }
        }
    }
    s.finish();
    c.sig(mix64(0x7b0d, static_cast<uint64_t>(j)));
    c.count("typed_boundary_cases");
}

// header-value products for segment frames: version x message type x sequence counter x payload length x segment kind,
// fed (a) to a decoder with no state for the endpoint, (b) after a first segment, (c) after a completed message.
// Coupled values (e.g. version 1 + message type 0 + counter 1 + a payload shorter than a message header) reach states that
// one-field-at-a-time mutation does not.
constexpr long kSegmentProductCases = 3 * 5 * 3;
void segmentProductCase(Ctx& c, long j)
{
    static const uint8_t versions[] = {1, 2, 255};
    static const uint8_t types[] = {0, 1, 2, 3, 255};
    uint8_t ver = versions[j % 3];
    uint8_t mt = types[(j / 3) % 5];
    int prior = static_cast<int>(j / 15);  // 0 nothing, 1 open first segment, 2 completed message
    Rng r = c.fixedRng(j, 37);
    static const uint16_t seqs[] = {0, 1, 2, 255, 256, 65535};
    static const size_t lens[] = {0, 1, 2, 13, 14, 15, 16, 17, 31, 32, 33};
    static const uint8_t segs[] = {wire::SEG_FIRST, wire::SEG_MID, wire::SEG_LAST};
    for (uint16_t seq : seqs)
        for (size_t len : lens)
            for (uint8_t seg : segs)
                for (int vary = 0; vary < 2; ++vary)
                {
                    Session s{c};
                    uint16_t dev = static_cast<uint16_t>(r.below(3));
                    uint8_t stream = static_cast<uint8_t>(r.below(3));
                    if (prior >= 1)
                    {
                        GMsg f0;
                        f0.ptype = 0x21;
                        f0.flags = wire::SEG_FIRST;
                        f0.payload = r.bytes(r.below(20));
                        // the pending message has the swept frame's version / type or the default ones
                        s.feed(buildFrame(vary ? ver : 1, dev, vary ? mt : wire::MT_DATA, stream, static_cast<uint16_t>(seq - 1), {f0}));
                        if (prior == 2)
                        {
                            GMsg l0 = f0;
                            l0.flags = wire::SEG_LAST;
                            s.feed(buildFrame(vary ? ver : 1, dev, vary ? mt : wire::MT_DATA, stream, seq, {l0}));
                        }
                    }
                    GMsg m;
                    m.ts = r.next();
                    m.ptype = static_cast<uint8_t>(vary ? r.range(1, 8) : 0x21);
                    m.flags = seg;
                    m.payload = r.bytes(len);
                    s.feed(buildFrame(ver, dev, mt, stream, static_cast<uint16_t>(prior == 2 ? seq + 1 : seq), {m}));
                    // what follows must be handled normally too
                    GMsg n = m;
                    n.flags = wire::SEG_LAST;
                    s.feed(buildFrame(ver, dev, mt, stream, static_cast<uint16_t>((prior == 2 ? seq + 1 : seq) + 1), {n}));
                    s.finish();
                }
    c.sig(mix64(0x5e9a, static_cast<uint64_t>(j)));
    c.count("segment_header_product_cases");
}

// deterministic: an interleaved segment script of two endpoints plus unsegmented frames; at frame position p allocation k of the
// decode call fails (every p, k = 0..7), with and without the frame being offered again; the rest of the script follows, then
// the script once more from the start on the same decoder
constexpr long kAllocFailCases = 24;
void allocFailCase(Ctx& c, long j)
{
    Rng r = c.fixedRng(j, 71);
    c05::History h;
    for (int e = 0; e < 2; ++e)
        c05::genStream(r, h, e, static_cast<uint16_t>(0x0101 + e), static_cast<uint8_t>(3 + e), 2 + static_cast<size_t>(j % 3), static_cast<uint16_t>(65533 + e), (j % 4 == 3) ? 30000 : 120);
    std::vector<int> order = c05::randomMerge(r, h);
    const bool again = j % 2;
    for (size_t p = 0; p < order.size() && p < 40; ++p)
        for (long k = 0; k < 8; ++k)
        {
            Session s{c};
            for (int round = 0; round < 2; ++round)
            {
                std::vector<size_t> pos(h.streams.size(), 0);
                for (size_t i = 0; i < order.size(); ++i)
                {
                    const Bytes& f = h.streams[static_cast<size_t>(order[i])].frames[pos[static_cast<size_t>(order[i])]++].raw;
                    if (round == 0 && i == p)
                        s.feedWithAllocationFailure(f, k, again);
                    else
                        s.feed(f);
                }
            }
            s.finish();
            c.count("allocation_failure_histories");
        }
    c.sig(mix64(0xa110c, static_cast<uint64_t>(j)));
}

// deterministic: endpoint X opens a reassembly; 70 000 / 140 000 / 300 000 other decode calls (unsegmented CMP frames of other
// endpoints, TECMP frames, runts) pass before each of its further segments - more than one, two and four turns of a 16-bit count
// of calls. Periodic house-keeping keyed on the number of calls shows here.
constexpr long kLongGapCases = 3;
void longGapCase(Ctx& c, long j)
{
    static const size_t gaps[] = {70000, 140000, 300000};
    const size_t gap = gaps[j % 3];
    Rng r = c.fixedRng(j, 73);
    Session s{c};
    Bytes data = r.bytes(22);
    std::vector<Bytes> seg;
    for (int i = 0; i < 3; ++i)
    {
        GMsg m;
        m.ts = 77;
        m.idWord = 3;
        m.ptype = 0x52;
        m.flags = static_cast<uint8_t>(i == 0 ? wire::SEG_FIRST : (i == 2 ? wire::SEG_LAST : wire::SEG_MID));
        if (i == 0)
            m.payload.assign(data.begin(), data.begin() + 10);
        else if (i == 1)
            m.payload.assign(data.begin() + 10, data.end());
        seg.push_back(buildFrame(1, 0x0301, wire::MT_DATA, 9, static_cast<uint16_t>(65534 + i), {m}));
    }
    GMsg u;
    u.ts = 1;
    u.idWord = 2;
    u.ptype = 0x53;
    u.payload = r.bytes(6);
    Bytes other = buildFrame(1, 0x0302, wire::MT_DATA, 9, 0, {u});
    Bytes tec = genTecmpFrame(r);
    Bytes runt = {1, 2, 3};
    uint16_t seq = 0;
    for (int i = 0; i < 3; ++i)
    {
        s.feed(seg[static_cast<size_t>(i)]);
        if (i == 2)
            break;
        for (size_t k = 0; k < gap; ++k)
        {
            ++c.evaluations;
            if (k % 7 == 3)
                s.dec->decode(tec.data(), tec.size());
            else if (k % 11 == 5)
                s.dec->decode(runt.data(), runt.size());
            else
            {
                wire::set16(other.data() + 6, seq++);
                auto got = s.dec->decode(other.data(), other.size());
                if (got.size() != 1)
                    c.violation("C02:too-many-packets", "an unsegmented frame of another endpoint yielded " + std::to_string(got.size()) + " packets", "long gap history");
            }
        }
    }
    s.finish();
    c.count("histories_with_more_than_65536_calls_between_two_segments");
    c.sig(mix64(0x10a69a9, static_cast<uint64_t>(j)));
}

long c02Count(Ctx& c)
{
    return static_cast<long>(canon().size()) * (kFieldsPerFrame + 1) + 256 + kOverflowCases + kTypedBoundaryCases + kSegmentProductCases + kAllocFailCases + kLongGapCases + (c.thorough() ? 250000 : 3000);
}
void c02Run(Ctx& c, long idx)
{
    long nc = static_cast<long>(canon().size()) * (kFieldsPerFrame + 1);
    if (idx < nc)
        return canonCase(c, idx);
    idx -= nc;
    if (idx < 256)
        return tecmpSweep(c, idx);
    idx -= 256;
    if (idx < kOverflowCases)
        return overflowCase(c, idx);
    idx -= kOverflowCases;
    if (idx < kTypedBoundaryCases)
        return typedBoundaryCase(c, idx);
    idx -= kTypedBoundaryCases;
    if (idx < kSegmentProductCases)
        return segmentProductCase(c, idx);
    idx -= kSegmentProductCases;
    if (idx < kAllocFailCases)
        return allocFailCase(c, idx);
    idx -= kAllocFailCases;
    if (idx < kLongGapCases)
        return longGapCase(c, idx);
    randomHistory(c, idx + nc + 256 + kOverflowCases + kTypedBoundaryCases + kSegmentProductCases + kAllocFailCases + kLongGapCases);
}

// -------------------------------------------------------------------------------------------------
// C03

enum Cls
{
    CL_CAN,
    CL_CANFD,
    CL_LIN,
    CL_ETH,
    CL_ANALOG,
    CL_CM,
    CL_IF,
    CL_COUNT
};
const char* clsName(int k)
{
    static const char* n[] = {"can", "canfd", "lin", "eth", "analog", "cm", "if"};
    return n[k];
}
Kind clsKind(int k)
{
    static const Kind m[] = {K_CAN, K_CANFD, K_LIN, K_ETH, K_ANALOG, K_CM, K_IF};
    return m[k];
}
size_t clsHeader(int k)
{
    static const size_t h[] = {16, 16, 8, 6, 16, 26, 36};
    return h[k];
}

bool validate(int cls, const uint8_t* p, size_t n)
{
    switch (cls)
    {
        case CL_CAN: return ASAM::CMP::CanPayload::isValidPayload(p, n);
        case CL_CANFD: return ASAM::CMP::CanFdPayload::isValidPayload(p, n);
        case CL_LIN: return ASAM::CMP::LinPayload::isValidPayload(p, n);
        case CL_ETH: return ASAM::CMP::EthernetPayload::isValidPayload(p, n);
        case CL_ANALOG: return ASAM::CMP::AnalogPayload::isValidPayload(p, n);
        case CL_CM: return ASAM::CMP::CaptureModulePayload::isValidPayload(p, n);
        default: return ASAM::CMP::InterfacePayload::isValidPayload(p, n);
    }
}

void accessClass(int cls, AccessResult& a, const uint8_t* p, size_t n, bool freeFirst)
{
    // the payload object is built from an exact-size heap block which is freed before the accessors run
    uint8_t* heap = new uint8_t[n ? n : 1];
    if (n)
        memcpy(heap, p, n);
    auto run = [&](auto&& obj) {
        if (freeFirst)
        {
            delete[] heap;
            heap = nullptr;
        }
        accessPayload(a, obj);
        return &obj;
    };
    switch (cls)
    {
        case CL_CAN: { ASAM::CMP::CanPayload o(heap, n); run(o); accessCan(a, o); break; }
        case CL_CANFD: { ASAM::CMP::CanFdPayload o(heap, n); run(o); accessCanFd(a, o); break; }
        case CL_LIN: { ASAM::CMP::LinPayload o(heap, n); run(o); accessLin(a, o); break; }
        case CL_ETH: { ASAM::CMP::EthernetPayload o(heap, n); run(o); accessEth(a, o); break; }
        case CL_ANALOG: { ASAM::CMP::AnalogPayload o(heap, n); run(o); accessAnalog(a, o); break; }
        case CL_CM: { ASAM::CMP::CaptureModulePayload o(heap, n); run(o); accessCm(a, o); break; }
        default: { ASAM::CMP::InterfacePayload o(heap, n); run(o); accessIf(a, o); break; }
    }
    delete[] heap;
}

struct C03
{
    Ctx& c;
    uint64_t dedupe = 0;

    // one buffer through all three paths of the statement
    void buffer(int cls, const Bytes& b, uint64_t sigBase)
    {
        ++c.evaluations;
        std::string in = std::string(clsName(cls)) + " buffer=" + hex(b, 3000);
        c.note(in);
        // (1) direct: validator on an exact-size heap block
        bool ok;
        {
            uint8_t* heap = new uint8_t[b.size() ? b.size() : 1];
            if (!b.empty())
                memcpy(heap, b.data(), b.size());
            ok = validate(cls, heap, b.size());
            delete[] heap;
        }
        c.count(std::string(ok ? "accepted_" : "rejected_") + clsName(cls));
        long rel = static_cast<long>(b.size()) - static_cast<long>(clsHeader(cls));
        if (rel < -2) rel = -2;
        if (rel > 12) rel = 12;
        if (ok)
        {
            AccessResult a;
            accessClass(cls, a, b.data(), b.size(), true);
            c.count("accessor_views_checked", a.views);
            if (!a.badView.empty())
                c.violation("C03:view-outside-payload", std::string(clsName(cls)) + " payload accepted by isValidPayload: " + a.detail, in);
            c.sig(mix64(mix64(sigBase, static_cast<uint64_t>(cls)), hashBytes(b.data(), b.size())));
        }
        // (2) through the decoder and (3) through Packet::isValidPacket / Packet(msgType, ...)
        uint8_t mt = (cls == CL_CM || cls == CL_IF) ? wire::MT_STATUS : wire::MT_DATA;
        static const uint8_t pts[] = {wire::PT_CAN, wire::PT_CANFD, wire::PT_LIN, wire::PT_ETHERNET, wire::PT_ANALOG, wire::PT_CM_STATUS, wire::PT_IF_STATUS};
        // (4) through the decoder as a segmented message (2..5 segments; the buffer may be longer than one message can carry,
        // the decoder accepts such histories): whatever comes back marked valid is held to the same standard
        if (b.size() >= 2 && b.size() <= 4 * 65535 && (b.size() > 65535 || c.evaluations % 4 == 0))
        {
            size_t nseg = std::max<size_t>(2, (b.size() + 65534) / 65535 + (hashBytes(b.data(), b.size()) % 2));
            nseg = std::min(nseg, b.size());
            Decoder dec;
            size_t off = 0;
            for (size_t i = 0; i < nseg; ++i)
            {
                size_t n = (i + 1 == nseg) ? b.size() - off : std::min<size_t>(65535, (b.size() + nseg - 1) / nseg);
                GMsg m;
                m.ts = 3;
                m.idWord = 4;
                m.ptype = pts[cls];
                m.flags = i == 0 ? wire::SEG_FIRST : (i + 1 == nseg ? wire::SEG_LAST : wire::SEG_MID);
                m.payload.assign(b.begin() + static_cast<long>(off), b.begin() + static_cast<long>(off + n));
                off += n;
                Bytes f = buildFrame(1, 7, mt, 1, static_cast<uint16_t>(65534 + i), {m});
                auto got = decodeCopy(dec, f);
                for (auto& p : got)
                {
                    if (!p || !p->isValid())
                        continue;
                    AccessResult a;
                    accessPacketHeader(a, *p);
                    const char* cn = accessTyped(a, p->getPayload());
                    c.count("reassembled_valid_packets");
                    if (!a.badView.empty())
                        c.violation("C03:view-outside-payload", std::string("decoder returned a valid reassembled ") + (cn ? cn : "?") + " packet (" + std::to_string(b.size()) + " segment bytes in " +
                                                                        std::to_string(nseg) + " segments): " + a.detail,
                                    in);
                }
            }
            c.count("buffers_through_reassembly");
        }
        if (b.size() <= 65535)
        {
            GMsg m;
            m.ts = 1;
            m.idWord = 2;
            m.ptype = pts[cls];
            m.payload = b;
            Bytes f = buildFrame(1, 1, mt, 0, 1, {m});
            Decoder dec;
            auto got = decodeCopy(dec, f);
            for (auto& p : got)
            {
                if (!p || !p->isValid())
                    continue;
                AccessResult a;
                std::vector<View> held;
                a.record = &held;
                accessPacketHeader(a, *p);
                const char* cn = accessTyped(a, p->getPayload());
                a.record = nullptr;
                c.count("decoder_path_valid_packets");
                if (!a.badView.empty())
                    c.violation("C03:view-outside-payload", std::string("decoder returned a valid ") + (cn ? cn : "?") + " packet: " + a.detail, in);
                else
                {
                    // the views stay inside the payload of the packet that reported them for as long as the packet is not
                    // modified: copies of it come and go and the accessors are called again in between
                    auto copy = std::make_unique<Packet>(*p);
                    AccessResult b;
                    accessPacketHeader(b, *p);
                    accessTyped(b, p->getPayload());
                    AccessResult again;
                    checkViews(again, p->getPayload(), held);
                    copy.reset();
                    AccessResult after;
                    checkViews(after, p->getPayload(), held);
                    c.count("views_rechecked_after_copy_of_packet", held.size());
                    if (!again.badView.empty() || !after.badView.empty())
                        c.violation("C03:earlier-view-outside-payload-of-unmodified-packet",
                                    std::string("decoder returned a valid ") + (cn ? cn : "?") + " packet; after copying it and calling the accessors again: " +
                                        (again.badView.empty() ? after.detail : again.detail),
                                    in);
                    else if (b.digest != a.digest || again.digest != after.digest)
                        c.violation("C03:accessor-results-change-without-modification", std::string("decoder returned a valid ") + (cn ? cn : "?") + " packet", in);
                }
            }
            // message-level validity check on an exact-size block, then construction from it
            size_t mlen = f.size() - wire::kCmpHeader;
            uint8_t* heap = new uint8_t[mlen ? mlen : 1];
            memcpy(heap, f.data() + wire::kCmpHeader, mlen);
            if (Packet::isValidPacket(heap, mlen))
            {
                Packet p(static_cast<ASAM::CMP::CmpHeader::MessageType>(mt), heap, mlen);
                delete[] heap;
                heap = nullptr;
                AccessResult a;
                accessPacketHeader(a, p);
                if (p.isValid())
                {
                    accessTyped(a, p.getPayload());
                    if (!a.badView.empty())
                        c.violation("C03:view-outside-payload", std::string("packet built from a message accepted by isValidPacket: ") + a.detail, in);
                }
                c.count("message_level_accepts");
            }
            delete[] heap;
            // the message cut anywhere: isValidPacket must protect the constructor
            if (mlen > 0 && (c.evaluations % 8 == 0))
            {
                size_t cut = (hashBytes(b.data(), b.size()) % mlen);
                uint8_t* h2 = new uint8_t[cut ? cut : 1];
                memcpy(h2, f.data() + wire::kCmpHeader, cut);
                if (Packet::isValidPacket(h2, cut))
                {
                    Packet p(static_cast<ASAM::CMP::CmpHeader::MessageType>(mt), h2, cut);
                    AccessResult a;
                    accessPacketHeader(a, p);
                    c.count("message_level_accepts");
                }
                delete[] h2;
            }
        }
    }
};

// deterministic: class cls, total length len in [0, header+8] (+ a few larger), every inner length field x value lattice x 3 backgrounds
void c03Det(Ctx& c, long idx)
{
    int cls = static_cast<int>(idx % CL_COUNT);
    long li = idx / CL_COUNT;  // length index
    size_t hdr = clsHeader(cls);
    size_t minLen = kindMinLen(clsKind(cls));
    size_t len;
    if (li <= static_cast<long>(minLen + 8))
        len = static_cast<size_t>(li);
    else
        len = minLen + 8 + static_cast<size_t>(li - static_cast<long>(minLen + 8)) * 13;
    Rng r = c.fixedRng(idx, 31);
    C03 t{c};
    // backgrounds: zero, ones, random - raw buffers of that length
    for (int bg = 0; bg < 3; ++bg)
    {
        Bytes b(len, bg == 0 ? 0x00 : 0xFF);
        if (bg == 2)
            b = r.bytes(len);
        t.buffer(cls, b, 1);
        // make the fixed part acceptable (no error flags, legal enum values), keep the background in the length fields
        if (len >= hdr)
        {
            Bytes ok = genPayload(clsKind(cls), std::max(len, minLen), r);
            ok.resize(len);
            t.buffer(cls, ok, 2);
        }
    }
    // a consistent payload of this length (if the class admits one) with each inner length field swept
    if (len >= minLen)
    {
        Bytes base = genPayload(clsKind(cls), len, r);
        t.buffer(cls, base, 3);
        for (auto& lf : lengthFieldsOf(clsKind(cls), base))
        {
            size_t rem = base.size() - (lf.first + static_cast<size_t>(lf.second));
            std::vector<uint32_t> vals = {0, 1, 2, static_cast<uint32_t>(rem - 1), static_cast<uint32_t>(rem), static_cast<uint32_t>(rem + 1), 0xFF, 0xFFFE, 0xFFFF, 0x7F, 0x80, 0x100, 0x8000};
            if (lf.second == 1)
            {
                vals.clear();
                for (uint32_t v = 0; v < 256; ++v)
                    vals.push_back(v);
            }
            else if (c.thorough() || li % 4 == 0)
            {
                // 16-bit fields: every value up to 300, then a 1-in-251 lattice (thorough: every value)
                for (uint32_t v = 0; v <= 0xFFFF; v += (c.thorough() ? 1 : (v < 300 ? 1 : 251)))
                    vals.push_back(v);
            }
            for (uint32_t v : vals)
            {
                Bytes m = base;
                if (lf.second == 1)
                    m[lf.first] = static_cast<uint8_t>(v);
                else
                    wire::set16(m.data() + lf.first, static_cast<uint16_t>(v));
                t.buffer(cls, m, 4 + lf.first);
                c.count("inner_length_field_values");
            }
        }
        // every truncation of the consistent payload
        for (size_t n = 0; n < base.size() && base.size() <= 200; ++n)
            t.buffer(cls, Bytes(base.begin(), base.begin() + static_cast<long>(n)), 5);
    }
    c.feature("c03_classes", clsName(cls));
}

void c03Random(Ctx& c, long idx)
{
    Rng r = c.caseRng(idx);
    int cls = static_cast<int>(idx % CL_COUNT);
    C03 t{c};
    for (int i = 0; i < 40; ++i)
    {
        Bytes b;
        unsigned w = static_cast<unsigned>(r.below(100));
        if (w < 10)
            b = r.bytes(r.logRange(1, 2048));
        else
        {
            b = genPayload(clsKind(cls), r.logRange(1, w < 14 ? 70000 : 2048), r);
            size_t muts = r.below(4);
            for (size_t k = 0; k < muts; ++k)
            {
                auto lfs = lengthFieldsOf(clsKind(cls), b);
                unsigned m = static_cast<unsigned>(r.below(10));
                if (m < 5 && !lfs.empty())
                {
                    auto lf = lfs[r.below(lfs.size())];
                    size_t rem = b.size() - (lf.first + static_cast<size_t>(lf.second));
                    uint32_t v = r.pick<uint32_t>({0, 1, 2, static_cast<uint32_t>(rem - 1), static_cast<uint32_t>(rem), static_cast<uint32_t>(rem + 1), 0xFF, 0xFFFE, 0xFFFF, static_cast<uint32_t>(r.below(rem + 2))});
                    if (lf.second == 1)
                        b[lf.first] = static_cast<uint8_t>(v);
                    else
                        wire::set16(b.data() + lf.first, static_cast<uint16_t>(v));
                }
                else if (m < 7)
                    b.resize(r.below(b.size() + 1));
                else if (m < 8)
                {
                    Bytes x = r.bytes(r.range(1, 30));
                    b.insert(b.end(), x.begin(), x.end());
                }
                else if (!b.empty())
                    b[r.below(std::min<size_t>(b.size(), clsHeader(cls) + 8))] = r.byte();
            }
        }
        t.buffer(cls, b, 9);
    }
    if (c.samples.size() < 3)
        c.sample(std::string("random ") + clsName(cls) + " buffers (40 per case)", 3);
}

// deterministic: buffers longer than 65535 bytes (legal for direct construction of typed payloads; the 16-bit
// length of a message does not limit them) with inner lengths that place views near / beyond offset 65535
void c03Big(Ctx& c, long j)
{
    Rng r = c.fixedRng(j, 39);
    C03 t{c};
    static const size_t sizes[] = {65535, 65536, 65537, 65541, 65542, 65600, 70000, 131072};
    size_t n = sizes[j % 8];
    int cls = static_cast<int>((j / 8) % 3);  // 0 eth, 1 if, 2 cm
    if (cls == 0)
    {
        for (uint32_t dl : {65520u, 65528u, 65529u, 65530u, 65531u, 65532u, 65533u, 65534u, 65535u, 0u, 1u})
        {
            Bytes b = r.bytes(n);
            wire::set16(b.data(), 0x0080);
            wire::set16(b.data() + 4, static_cast<uint16_t>(dl));
            t.buffer(CL_ETH, b, 40);
        }
    }
    else if (cls == 1)
    {
        for (uint32_t cnt : {0u, 1u, 30000u, 40000u, 65533u, 65534u, 65535u})
        {
            wire::If f;
            f.streamIds = r.bytes(cnt);
            size_t used = 36 + 2 + cnt + (cnt % 2) + 2;
            f.vendorData = r.bytes(n > used ? std::min<size_t>(n - used, 65535) : 0);
            Bytes b = f.serialize();
            t.buffer(CL_IF, b, 41);
            if (b.size() > 40)
            {
                b.resize(b.size() - 1 - r.below(20));
                t.buffer(CL_IF, b, 42);
            }
        }
    }
    else
    {
        for (uint32_t slen : {0u, 30000u, 65532u, 65534u})
        {
            wire::Cm m;
            m.description = std::string(slen, 'd');
            m.serial = std::string(slen > 1000 ? 1000 : slen, 's');
            m.vendorData = r.bytes(n > 70000 ? 65535 : 20000);
            Bytes b = m.serialize();
            t.buffer(CL_CM, b, 43);
            b.resize(b.size() - 1 - r.below(20));
            t.buffer(CL_CM, b, 44);
        }
    }
    c.count("buffers_longer_than_65535_cases");
}

constexpr long kC03DetLengths = 60;  // length indices per class
long c03Count(Ctx& c)
{
    return kC03DetLengths * CL_COUNT + 24 + kAllocFailCases + (c.thorough() ? 2100000 : 40000);
}
void c03Run(Ctx& c, long idx)
{
    if (idx < kC03DetLengths * CL_COUNT)
        return c03Det(c, idx);
    if (idx < kC03DetLengths * CL_COUNT + 24)
        return c03Big(c, idx - kC03DetLengths * CL_COUNT);
    // "every packet a decoder returns as valid": also from a decoder one of whose earlier calls was cut short by an allocation failure
    if (idx < kC03DetLengths * CL_COUNT + 24 + kAllocFailCases)
        return allocFailCase(c, idx - kC03DetLengths * CL_COUNT - 24);
    c03Random(c, idx);
}

// C03 outside main(): typed payloads whose inner lengths contradict the payload (and consistent ones) are decoded during
// static initialisation, inside main() and after main() has returned; every packet that comes back valid is held to the
// view oracle each time, and the three answers must agree.
std::vector<std::string> c03FixedSet()
{
    std::vector<std::string> out;
    Rng r(0x03C0FFEEULL);
    static const uint8_t pts[] = {wire::PT_CAN, wire::PT_CANFD, wire::PT_LIN, wire::PT_ETHERNET, wire::PT_ANALOG, wire::PT_CM_STATUS, wire::PT_IF_STATUS};
    for (int i = 0; i < 140; ++i)
    {
        int cls = i % CL_COUNT;
        Bytes b = (i / CL_COUNT) % 2 ? genInconsistentPayload(clsKind(cls), r) : genPayload(clsKind(cls), kindMinLen(clsKind(cls)) + r.below(30), r);
        if (b.empty())
            b.push_back(0);
        GMsg m;
        m.ts = 1;
        m.idWord = 2;
        m.ptype = pts[cls];
        m.payload = b;
        Bytes f = buildFrame(1, 1, (cls == CL_CM || cls == CL_IF) ? wire::MT_STATUS : wire::MT_DATA, 0, 1, {m});
        Decoder dec;
        auto got = dec.decode(f.data(), f.size());
        std::string line = std::string(clsName(cls)) + " payload=" + hex(b, 80) + " ->";
        for (auto& p : got)
        {
            if (!p)
                continue;
            line += p->isValid() ? " valid" : " invalid";
            if (p->isValid())
            {
                AccessResult a;
                accessTyped(a, p->getPayload());
                line += a.badView.empty() ? " views-inside" : " VIEW-OUTSIDE(" + a.detail + ")";
            }
        }
        out.push_back(line);
    }
    return out;
}
std::string c03Judge(const std::vector<std::string>& then, const std::vector<std::string>& now)
{
    for (size_t i = 0; i < now.size(); ++i)
    {
        if (now[i].find("VIEW-OUTSIDE") != std::string::npos)
            return "view outside the payload of a packet returned valid: " + now[i];
        if (i < then.size() && then[i] != now[i])
            return "then: " + then[i] + " now: " + now[i];
    }
    return "";
}
void c03AfterMain();
// (never destroyed: the atexit handler still reads it)
const std::vector<std::string>& gC03BeforeMain = *new std::vector<std::string>((lateReport(), atexit(c03AfterMain), probeInChild(c03FixedSet)));
void c03AfterMain()
{
    if (lateReport().prop != "C03" || lateReport().shard != 0)
        return;
    std::string d = c03Judge(gC03BeforeMain, c03FixedSet());
    if (!d.empty())
        lateViolation("C03:view-outside-payload-or-other-verdict-after-main-returned", d);
}
void c03OutsideMainCase(Ctx& c)
{
    auto now = c03FixedSet();
    std::string d = probeDied(gC03BeforeMain);
    if (d.empty())
        d = c03Judge(gC03BeforeMain, now);
    if (d.empty())
        d = c03Judge(now, gC03BeforeMain);
    ++c.evaluations;
    c.count("payloads_also_decoded_before_and_after_main", now.size());
    if (!d.empty())
        c.violation("C03:view-outside-payload-or-other-verdict-before-main", d, "fixed set of 140 typed payloads");
}

// C02 outside main(): every canonical frame (every CMP payload kind, every TECMP kind incl. bus status) is decoded during static
// initialisation, inside main() and after main() has returned; "returns normally and promptly" and the packet bound hold at
// every moment and the three answers agree. The run before main() happens in a forked child with an alarm, so that a call that
// never comes back (or dies) there is observed instead of taking the driver down with it.
std::vector<std::string> c02FixedSet()
{
    std::vector<std::string> out;
    for (auto& cn : canonicalFrames())
    {
        const Bytes& f = cn.frame;
        std::string line = cn.family + " " + hex(f, 64) + " ->";
        Decoder dec;
        auto got = dec.decode(f.data(), f.size());
        line += " " + std::to_string(got.size()) + " packet(s)";
        if (got.size() > f.size() / 12)
            line += " TOO-MANY";
        for (auto& p : got)
            line += p ? " " + snapPacket(*p).str() : " null";
        if (!f.empty() && f[0] == 0)
        {
            auto t = TECMP::Decoder::Decode(f.data(), f.size());
            line += " | TECMP " + std::to_string(t.size()) + " packet(s)";
            for (auto& p : t)
                line += p ? " " + snapPacket(*p).str() : " null";
        }
        out.push_back(std::move(line));
    }
    return out;
}
std::vector<std::string> c02FixedSetInChild()
{
    return probeInChild(c02FixedSet, 8);
}
void c02AfterMain();
const std::vector<std::string>& gC02BeforeMain = *new std::vector<std::string>((lateReport(), atexit(c02AfterMain), c02FixedSetInChild()));
std::string c02Judge(const std::vector<std::string>& then, const std::vector<std::string>& now)
{
    for (auto& l : then)
        if (l.rfind("PROBE-DIED", 0) == 0)
            return "decoding the canonical frames during static initialisation: " + l;
    for (size_t i = 0; i < now.size(); ++i)
    {
        if (now[i].find("TOO-MANY") != std::string::npos)
            return "more than one packet per 12 input bytes: " + now[i];
        if (i < then.size() && then[i] != now[i])
            return "then: " + then[i].substr(0, 1200) + " now: " + now[i].substr(0, 1200);
    }
    return "";
}
void c02AfterMain()
{
    if (lateReport().prop != "C02" || lateReport().shard != 0)
        return;
    std::string d = c02Judge(c02FixedSet(), c02FixedSet());
    if (d.empty() && !gC02BeforeMain.empty() && gC02BeforeMain[0] != "PROBE-NOT-RUN")
        d = c02Judge(gC02BeforeMain, c02FixedSet());
    if (!d.empty())
        lateViolation("C02:decode-after-main-returned-differs-or-fails", d);
}
void c02OutsideMainCase(Ctx& c)
{
    auto now = c02FixedSet();
    ++c.evaluations;
    if (gC02BeforeMain.empty() || gC02BeforeMain[0] == "PROBE-NOT-RUN")
    {
        c.count("before_main_probe_not_run");
        return;
    }
    std::string d = c02Judge(gC02BeforeMain, now);
    c.count("canonical_frames_also_decoded_before_and_after_main", now.size());
    if (!d.empty())
        c.violation("C02:decode-before-main-differs-or-does-not-return", d, "canonical frames decoded during static initialisation (in a forked child with an 8 second alarm)");
}

long countCases(Ctx& c)
{
    if (c.prop == "C02")
        return c02Count(c);
    if (c.prop == "C03")
        return c03Count(c);
    return -1;
}
void runCase(Ctx& c, long idx)
{
    if (c.prop == "C03" && idx == 0)
        c03OutsideMainCase(c);
    if (c.prop == "C02" && idx == 0)
        c02OutsideMainCase(c);
    if (c.prop == "C02")
        c02Run(c, idx);
    else
        c03Run(c, idx);
}

}  // namespace

int main(int argc, char** argv)
{
    return driverMain(argc, argv, countCases, runCase);
}
