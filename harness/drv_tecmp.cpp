// drv_tecmp: C15 - TECMP messages convert to equivalent ASAM CMP packets (independent TECMP parse as oracle),
// unsupported kinds / non-fitting inner lengths yield no packet. ASan + UBSan watch every conversion.
#include <locale>

#include <asam_cmp/decoder.h>
#include <asam_cmp/tecmp_decoder.h>

#include "accessors.h"
#include "dec_common.h"
#include "locale_env.h"
#include "framegen.h"
#include "tecmp_oracle.h"

using namespace vf;
using namespace wire;
using namespace vf::tec;

namespace {

// TECMP::Decoder::Decode is a static, stateless function: it owes the same result whenever it is called, also during the
// static initialisation of another translation unit (this one is linked in front of the library, so its initialisers
// run first). A fixed set of well-formed frames is decoded here, before main(), and again inside a case.
std::vector<std::string> decodeFixedSet()
{
    std::vector<std::string> out;
    Rng r(0x15C0FFEE);
    for (int i = 0; i < 60; ++i)
    {
        Bytes f = genTecmpFrame(r);
        std::string s;
        for (int entry = 0; entry < 2; ++entry)
        {
            std::vector<PacketPtr> got;
            if (entry == 0)
                got = TECMP::Decoder::Decode(f.data(), f.size());
            else
            {
                ASAM::CMP::Decoder dec;
                got = dec.decode(f.data(), f.size());
            }
            s += std::to_string(got.size()) + " packet(s):";
            for (auto& p : got)
                s += p ? " " + snapPacket(*p).str() : " null";
            s += " | ";
        }
        out.push_back("frame=" + hex(f, 200) + " -> " + s);
    }
    return out;
}
const std::vector<std::string> gDecodedBeforeMain = probeInChild(decodeFixedSet);

void beforeMainCase(Ctx& c)
{
    std::vector<std::string> now = decodeFixedSet();
    if (!probeDied(gDecodedBeforeMain).empty())
        c.violation("C15:result-of-a-call-before-main-differs", probeDied(gDecodedBeforeMain), "fixed set of TECMP frames");
    for (size_t i = 0; i < now.size(); ++i)
    {
        ++c.evaluations;
        if (i >= gDecodedBeforeMain.size() || now[i] != gDecodedBeforeMain[i])
            c.violation("C15:result-of-a-call-before-main-differs", "decoded during static initialisation: " + (i < gDecodedBeforeMain.size() ? gDecodedBeforeMain[i] : std::string("(nothing)")) + " decoded now: " + now[i], now[i]);
    }
    c.count("frames_also_decoded_before_main", now.size());
}

void runCase(Ctx& c, TCase& tc)
{
    expectation(tc);
    Bytes f = tc.h.frame(tc.payload);
    std::string in = tc.what + " frame=" + hex(f, 2000);
    c.note(in);
    for (int entry = 0; entry < 2; ++entry)
    {
        ++c.evaluations;
        std::vector<PacketPtr> got;
        if (entry == 0)
        {
            ASAM::CMP::Decoder dec;
            got = decodeCopy(dec, f);
        }
        else
        {
            uint8_t* heap = new uint8_t[f.size()];
            memcpy(heap, f.data(), f.size());
            got = TECMP::Decoder::Decode(heap, f.size());
            delete[] heap;
        }
        const char* via = entry == 0 ? "Decoder::decode" : "TECMP::Decoder::Decode";
        for (auto& p : got)
            if (!p)
                c.violation("C15:null-packet", std::string(via) + " returned a null packet", in);
        if (tc.want == W_SAFETY_ONLY)
        {
            c.count("safety_only_cases");
            continue;
        }
        if (tc.want == W_NONE)
        {
            if (!got.empty())
                c.violation("C15:packet-for-unsupported-or-nonfitting-message", std::string(via) + ": " + tc.what + " yields " + std::to_string(got.size()) + " packet(s), expected none" + (got[0] ? "; first " + snapPacket(*got[0]).str() : ""), in);
            c.count("expected_no_packet");
            continue;
        }
        if (tc.want == W_NONE_OR_CORRECT && got.empty())
        {
            c.count("unspecified_yielded_nothing");
            continue;
        }
        if (got.size() != tc.exp.size())
        {
            c.violation(got.size() < tc.exp.size() ? "C15:packet-missing" : "C15:surplus-packet", std::string(via) + ": " + tc.what + " yields " + std::to_string(got.size()) + " packets, expected " + std::to_string(tc.exp.size()), in);
            continue;
        }
        for (size_t i = 0; i < got.size(); ++i)
        {
            if (!got[i])
                continue;
            std::string detail;
            std::string field = comparePacket(*got[i], tc.h, tc.exp[i], detail);
            if (!field.empty())
                c.violation("C15:" + field, std::string(via) + ": " + tc.what + ", packet " + std::to_string(i) + ": " + detail, in);
        }
        c.count(tc.want == W_PACKETS ? "converted_and_compared" : "unspecified_converted_and_compared", got.size());
    }
    c.sig(tc.sig);
}

uint64_t lenClass(size_t n)
{
    return n <= 8 ? n : (n <= 64 ? 9 + n % 4 : 14);
}

TCase mkCan(Rng& r, bool fd, size_t len, size_t crcBytes, long lenDelta)
{
    TCase tc;
    fillHeader(tc.h, r);
    tc.h.msgType = TMT_DATA;
    tc.h.dataType = fd ? TDT_CANFD : TDT_CAN;
    uint32_t arb = r.chance(1, 4) ? r.pick<uint32_t>({0, 0x7FF, 0x1FFFFFFF, 0x80000000u, 0xFFFFFFFFu}) : static_cast<uint32_t>(r.next());
    long lb = static_cast<long>(len) + lenDelta;
    if (lb < 0)
        lb = 0;
    if (lb > 255)
        lb = 255;
    tc.payload = tecmpCan(arb, static_cast<uint8_t>(lb), r.bytes(len), r.bytes(crcBytes));
    tc.h.payloadLength = static_cast<uint16_t>(tc.payload.size());
    tc.what = std::string(fd ? "CAN-FD" : "CAN") + " data message, " + std::to_string(len) + " data bytes, length byte " + std::to_string(lb) + ", " + std::to_string(crcBytes) + " CRC bytes";
    tc.sig = mix64(fd ? 3 : 2, mix64(lenClass(len), mix64(crcBytes, static_cast<uint64_t>(lenDelta + 300))));
    return tc;
}
TCase mkLin(Rng& r, size_t len, size_t ckBytes, long lenDelta)
{
    TCase tc;
    fillHeader(tc.h, r);
    tc.h.msgType = TMT_DATA;
    tc.h.dataType = TDT_LIN;
    long lb = static_cast<long>(len) + lenDelta;
    if (lb < 0)
        lb = 0;
    if (lb > 255)
        lb = 255;
    tc.payload = tecmpLin(r.byte(), static_cast<uint8_t>(lb), r.bytes(len), r.bytes(ckBytes));
    tc.h.payloadLength = static_cast<uint16_t>(tc.payload.size());
    tc.what = "LIN data message, " + std::to_string(len) + " data bytes, length byte " + std::to_string(lb) + ", " + std::to_string(ckBytes) + " checksum bytes";
    tc.sig = mix64(4, mix64(lenClass(len), mix64(ckBytes, static_cast<uint64_t>(lenDelta + 300))));
    return tc;
}
TCase mkCm(Rng& r, long cut)
{
    TCase tc;
    fillHeader(tc.h, r);
    tc.h.msgType = TMT_CM_STATUS;
    tc.h.dataType = 0;
    TecmpStatusGeneric g;
    g.vendorId = r.byte();
    g.cmVersion = r.byte();
    g.cmType = r.byte();
    g.vendorDataLength = 24;
    g.deviceId = static_cast<uint16_t>(r.next());
    g.serial = r.chance(1, 4) ? r.pick<uint32_t>({0, 1, 0xFFFFFFFFu, 1000000000u}) : static_cast<uint32_t>(r.next());
    TecmpCmVendor v;
    v.swMajor = r.byte();
    v.swMinor = r.byte();
    v.swPatch = r.byte();
    v.hwMajor = r.byte();
    v.hwMinor = r.byte();
    v.bufferFill = r.byte();
    v.bufferSize = static_cast<uint32_t>(r.next());
    v.lifecycle = r.next();
    v.voltWhole = r.byte();
    v.voltFrac = r.byte();
    v.chassisTemp = r.byte();
    v.siliconTemp = r.byte();
    g.put(tc.payload);
    v.put(tc.payload);
    if (cut >= 0 && static_cast<size_t>(cut) < tc.payload.size())
        tc.payload.resize(static_cast<size_t>(cut));
    tc.h.payloadLength = static_cast<uint16_t>(tc.payload.size());
    tc.what = "capture module status, " + std::to_string(tc.payload.size()) + " payload bytes";
    tc.sig = mix64(1, static_cast<uint64_t>(cut + 1));
    return tc;
}
TCase mkBus(Rng& r, size_t entries, size_t tailBytes)
{
    TCase tc;
    fillHeader(tc.h, r);
    tc.h.msgType = TMT_BUS_STATUS;
    tc.h.dataType = 0;
    TecmpStatusGeneric g;
    g.vendorId = r.byte();
    g.deviceId = static_cast<uint16_t>(r.next());
    g.serial = static_cast<uint32_t>(r.next());
    g.put(tc.payload);
    for (size_t i = 0; i < entries; ++i)
    {
        TecmpBusEntry e;
        e.interfaceId = static_cast<uint32_t>(r.next());
        e.messagesTotal = static_cast<uint32_t>(r.next());
        e.errorsTotal = static_cast<uint32_t>(r.next());
        e.put(tc.payload);
    }
    Bytes t = r.bytes(tailBytes);
    putBytes(tc.payload, t);
    tc.h.payloadLength = static_cast<uint16_t>(tc.payload.size());
    tc.what = "bus status, " + std::to_string(entries) + " entries" + (tailBytes ? " + " + std::to_string(tailBytes) + " tail bytes" : "");
    tc.sig = mix64(5, mix64(entries, tailBytes));
    return tc;
}

// ---- deterministic families ----
// A: message type mt (0..255) x 10 data types, payload = a well-formed CAN body
void famTypes(Ctx& c, long mt)
{
    Rng r = c.fixedRng(mt, 15);
    static const uint16_t dts[] = {0, 2, 3, 4, 8, 0x10, 0x20, 0x80, 0xFF00, 0x00FF};
    for (uint16_t dt : dts)
    {
        for (int body = 0; body < 3; ++body)
        {
            TCase tc = body == 0 ? mkCan(r, false, 4, 3, 0) : (body == 1 ? mkCm(r, -1) : mkBus(r, 2, 0));
            tc.h.msgType = static_cast<uint8_t>(mt);
            tc.h.dataType = dt;
            tc.what = "message type " + std::to_string(mt) + " data type " + std::to_string(dt) + " with a " + (body == 0 ? "CAN" : (body == 1 ? "CM status" : "bus status")) + " body";
            tc.sig = mix64(100, mix64(static_cast<uint64_t>(mt), dt * 4 + static_cast<uint64_t>(body)));
            runCase(c, tc);
        }
    }
    c.count("message_types_swept");
}
// B: all 65536 data types on a data message (256 cases x 256 values)
void famDataTypes(Ctx& c, long hi)
{
    Rng r = c.fixedRng(hi, 16);
    for (int lo = 0; lo < 256; ++lo)
    {
        uint16_t dt = static_cast<uint16_t>((hi << 8) | lo);
        TCase tc = (lo % 2) ? mkCan(r, false, static_cast<size_t>(lo % 9), 0, 0) : mkLin(r, static_cast<size_t>(lo % 9), 1, 0);
        tc.h.dataType = dt;
        tc.what = "data message with data type " + std::to_string(dt);
        tc.sig = mix64(200, dt);
        runCase(c, tc);
        c.count("data_types_swept");
        // the same value on the two status kinds (their kind is the message type; the data type is an arbitrary header field)
        TCase st = (lo % 2) ? mkCm(r, -1) : mkBus(r, static_cast<size_t>(lo % 5), 0);
        st.h.dataType = dt;
        st.what += ", data type " + std::to_string(dt);
        st.sig = mix64(201, dt);
        runCase(c, st);
        TCase st2 = (lo % 2) ? mkBus(r, static_cast<size_t>(1 + lo % 3), 0) : mkCm(r, -1);
        st2.h.dataType = dt;
        st2.what += ", data type " + std::to_string(dt);
        st2.sig = mix64(202, dt);
        runCase(c, st2);
        c.count("data_types_swept_on_status_messages");
    }
}
// C: lengths: CAN 0..8, CAN-FD 0..64, LIN 0..8 x CRC bytes {0,1,2,3} x inner length delta {-1,0,+1,0xFF}
void famLengths(Ctx& c, long j)
{
    Rng r = c.fixedRng(j, 17);
    static const long deltas[] = {0, -1, 1, 2, 200};
    if (j <= 8)
    {
        for (size_t crc = 0; crc <= 3; ++crc)
            for (long d : deltas)
            {
                TCase tc = mkCan(r, false, static_cast<size_t>(j), crc, d);
                runCase(c, tc);
            }
    }
    else if (j <= 8 + 65)
    {
        for (size_t crc = 0; crc <= 3; ++crc)
            for (long d : deltas)
            {
                TCase tc = mkCan(r, true, static_cast<size_t>(j - 9), crc, d);
                runCase(c, tc);
            }
    }
    else if (j <= 8 + 65 + 9)
    {
        for (size_t ck = 0; ck <= 1; ++ck)
            for (long d : deltas)
            {
                TCase tc = mkLin(r, static_cast<size_t>(j - 74), ck, d);
                runCase(c, tc);
            }
    }
    else if (j <= 8 + 65 + 9 + 41)
    {
        size_t n = static_cast<size_t>(j - 83);
        for (size_t tail : {size_t(0), size_t(1), size_t(11)})
        {
            TCase tc = mkBus(r, n, tail);
            runCase(c, tc);
        }
        // declared payload length off by one / zero
        TCase tc = mkBus(r, n, 0);
        tc.h.payloadLength = static_cast<uint16_t>(tc.payload.size() + 1);
        tc.what += ", declared payload length one more than present";
        runCase(c, tc);
        TCase tz = mkBus(r, n, 0);
        tz.h.payloadLength = 0;
        tz.what += ", declared payload length 0";
        runCase(c, tz);
    }
    else
    {
        // CM status cut at every length 0..36 and whole
        long cut = j - 125;
        TCase tc = mkCm(r, cut);
        runCase(c, tc);
        // generic part only / shorter-than-header bodies for CAN and LIN
        if (cut < 8)
        {
            TCase a = mkCan(r, false, 0, 0, 0);
            a.payload.resize(static_cast<size_t>(cut) % 5);
            a.h.payloadLength = static_cast<uint16_t>(a.payload.size());
            a.what = "CAN data message with only " + std::to_string(a.payload.size()) + " payload bytes";
            a.sig = mix64(300, a.payload.size());
            runCase(c, a);
            TCase l = mkLin(r, 0, 0, 0);
            l.payload.resize(static_cast<size_t>(cut) % 2);
            l.h.payloadLength = static_cast<uint16_t>(l.payload.size());
            l.what = "LIN data message with only " + std::to_string(l.payload.size()) + " payload bytes";
            l.sig = mix64(301, l.payload.size());
            runCase(c, l);
        }
    }
    c.count("length_family_cases");
}
constexpr long kFamLengths = 9 + 65 + 9 + 41 + 38;

void randomCaseInner(Ctx& c, long idx);
void randomCase(Ctx& c, long idx)
{
    if (idx % 4 == 1)
    {
        ScopedGlobalLocale g(static_cast<unsigned>(idx / 4));  // group sizes 1, 2, 3; separators , and '
        c.count("cases_under_a_global_locale_with_digit_grouping");
        randomCaseInner(c, idx);
        return;
    }
    randomCaseInner(c, idx);
}
void randomCaseInner(Ctx& c, long idx)
{
    Rng r = c.caseRng(idx);
    for (int i = 0; i < 10; ++i)
    {
        unsigned w = static_cast<unsigned>(r.below(100));
        TCase tc;
        long d = r.chance(1, 5) ? r.pick<long>({-1, 1, 2, 100, 250}) : 0;
        if (w < 25)
            tc = mkCan(r, false, r.below(9), r.below(4), d);
        else if (w < 50)
            tc = mkCan(r, true, r.chance(1, 2) ? r.pick<size_t>({0, 8, 12, 16, 20, 24, 32, 48, 64}) : r.below(65), r.below(4), d);
        else if (w < 65)
            tc = mkLin(r, r.below(9), r.below(2), d);
        else if (w < 78)
            tc = mkCm(r, r.chance(1, 4) ? static_cast<long>(r.below(37)) : -1);
        else if (w < 92)
            tc = mkBus(r, r.below(41), r.chance(1, 5) ? r.below(12) : 0);
        else
        {
            tc = mkCan(r, false, r.below(9), 0, 0);
            tc.h.msgType = r.byte();
            tc.h.dataType = r.chance(1, 2) ? static_cast<uint16_t>(r.next()) : r.pick<uint16_t>({2, 3, 4, 8, 0x10, 0x20, 0x80});
            tc.what = "random message type " + std::to_string(tc.h.msgType) + " data type " + std::to_string(tc.h.dataType);
            tc.sig = mix64(400, mix64(tc.h.msgType, tc.h.dataType));
        }
        if (r.chance(1, 12))
        {
            unsigned k = static_cast<unsigned>(r.below(3));
            if (k == 0)
                tc.h.payloadLength = static_cast<uint16_t>(tc.payload.size() + r.range(1, 300));
            else if (k == 1 && !tc.payload.empty())
                tc.h.payloadLength = static_cast<uint16_t>(r.below(tc.payload.size()));
            else
                tc.h.payloadLength = 0;
            tc.what += ", declared payload length " + std::to_string(tc.h.payloadLength);
            tc.sig = mix64(tc.sig, 500 + k);
        }
        runCase(c, tc);
        if (c.samples.size() < 4)
            c.sample(tc.what + " frame=" + hex(tc.h.frame(tc.payload), 80), 4);
        // near-duplicates directly behind the original: the same message with ONE header field or ONE payload byte changed
        // (or everything behind the first 12 payload bytes renewed), then the original again. The conversion is a pure
        // function of the frame, so each is judged on its own; a result remembered from the previous frame under a key
        // that leaves the changed part out shows as a mismatch.
        if (r.chance(1, 2))
        {
            unsigned n = 1 + static_cast<unsigned>(r.below(3));
            for (unsigned k = 0; k < n; ++k)
            {
                TCase sib = tc;
                unsigned how = static_cast<unsigned>(r.below(10));
                if (how < 5 && !sib.payload.empty())
                {
                    size_t pos = r.chance(1, 3) && sib.payload.size() > 12 ? 12 + r.below(sib.payload.size() - 12) : r.below(sib.payload.size());
                    sib.payload[pos] = static_cast<uint8_t>(sib.payload[pos] ^ (1u << r.below(8)));
                    sib.what += ", then the same with payload byte " + std::to_string(pos) + " changed";
                }
                else if (how < 7 && sib.payload.size() > 12)
                {
                    for (size_t q = 12; q < sib.payload.size(); ++q)
                        sib.payload[q] = r.byte();
                    sib.what += ", then the same with everything behind payload byte 12 renewed";
                }
                else
                {
                    switch (r.below(6))
                    {
                        case 0: sib.h.device = static_cast<uint8_t>(sib.h.device + 1 + r.below(255)); break;
                        case 1: sib.h.interfaceId ^= 1u << r.below(32); break;
                        case 2: sib.h.timestamp ^= 1ull << r.below(64); break;
                        case 3: sib.h.dataFlags ^= static_cast<uint16_t>(1u << r.below(16)); break;
                        case 4: sib.h.counter = static_cast<uint16_t>(sib.h.counter + 1); break;
                        default: sib.h.deviceFlags ^= static_cast<uint16_t>(1u << r.below(16)); break;
                    }
                    sib.what += ", then the same with one header field changed";
                }
                sib.sig = mix64(tc.sig, 600 + how);
                runCase(c, sib);
                c.count("near_duplicates_behind_their_original");
            }
            runCase(c, tc);
        }
    }
}

long countCases(Ctx& c)
{
    if (c.prop != "C15")
        return -1;
    return 256 + 256 + kFamLengths + (c.thorough() ? 600000 : 60000);
}
void runIdx(Ctx& c, long idx)
{
    if (idx == 0)
        beforeMainCase(c);
    if (idx < 256)
        return famTypes(c, idx);
    idx -= 256;
    if (idx < 256)
        return famDataTypes(c, idx);
    idx -= 256;
    if (idx < kFamLengths)
        return famLengths(c, idx);
    randomCase(c, idx + 512 + kFamLengths);
}

}  // namespace

int main(int argc, char** argv)
{
    return driverMain(argc, argv, countCases, runIdx);
}
