#include <cstdio>
#include <cstdlib>
#include <cstring>
#include <vector>
#include <random>
#include <asam_cmp/encoder.h>
#include <asam_cmp/decoder.h>
using namespace ASAM::CMP;
struct Msg{ int pkt; int flag; size_t off; size_t len; };
struct Fr{ uint8_t type; std::vector<Msg> msgs; size_t size; };
static std::vector<Fr> model(const std::vector<std::pair<uint8_t,size_t>>& batch,size_t mn,size_t mx){
  std::vector<Fr> out; bool curOpen=false; bool curSeg=false; size_t freeB=0;
  auto close=[&](){ if(!out.empty()){ Fr& f=out.back(); size_t used=8; for(auto&m:f.msgs) used+=16+m.len; f.size=std::max(used,mn);} };
  for(size_t i=0;i<batch.size();++i){ uint8_t t=batch[i].first; size_t len=batch[i].second; size_t cap=mx-8;
    if(16+len>cap){ size_t pos=0; bool first=true; while(pos<len){ size_t chunk=std::min(cap-16,len-pos); int flag= first?1:(pos+chunk==len?3:2); close(); out.push_back(Fr{t,{Msg{(int)i,flag,pos,chunk}},0}); pos+=chunk; first=false; } curOpen=false; }
    else { if(curOpen && !curSeg && out.back().type==t && freeB>=16+len){ out.back().msgs.push_back(Msg{(int)i,0,0,len}); freeB-=16+len; }
           else { close(); out.push_back(Fr{t,{Msg{(int)i,0,0,len}},0}); curOpen=true; curSeg=false; freeB=cap-16-len; } } }
  close(); return out; }
int main(int argc,char**argv){ std::mt19937_64 rng(argc>1?atoi(argv[1]):1); long cases=0,bad=0;
  auto runCase=[&](const std::vector<std::pair<uint8_t,size_t>>& batch,size_t mn,size_t mx, Encoder& enc){
    cases++; std::vector<Packet> pk; for(size_t i=0;i<batch.size();++i){ std::vector<uint8_t> d(batch[i].second); for(size_t j=0;j<d.size();++j) d[j]=uint8_t(i*31+j*7+1); Payload pl(PayloadType((CmpHeader::MessageType)batch[i].first, 0x70+ (i%8)), d.data(), d.size()); Packet p; p.setPayload(pl); p.setTimestamp(1000+i); p.setInterfaceId(77+i); p.setVendorId(5+i); pk.push_back(p); }
    auto frames=enc.encode(pk.begin(), pk.end(), DataContext{mn,mx}); auto exp=model(batch,mn,mx);
    bool ok = frames.size()==exp.size();
    for(size_t f=0; ok && f<frames.size(); ++f){ auto& fr=frames[f]; ok = fr.size()==exp[f].size && fr[4]==exp[f].type; size_t off=8; for(auto& m: exp[f].msgs){ if(!ok) break; ok = off+16+m.len<=fr.size() && ((fr[off+12]>>2)&3)==m.flag && (size_t)((fr[off+14]<<8)|fr[off+15])==m.len; if(ok){ const uint8_t* src=pk[m.pkt].getPayload().getRawPayload()+m.off; ok = !memcmp(&fr[off+16], src, m.len);} off+=16+m.len; } for(size_t k=off; ok && k<fr.size(); ++k) ok = fr[k]==0; }
    if(!ok){ bad++; if(bad<6){ printf("MISMATCH mn=%zu mx=%zu batch:", mn,mx); for(auto&b:batch) printf(" (%u,%zu)", b.first,b.second); printf("\n  got:"); for(auto&fr:frames) printf(" %zu", fr.size()); printf("\n  exp:"); for(auto&fr:exp) printf(" %zu", fr.size); printf("\n"); } }
    // round trip
    Decoder dec; size_t n=0; for(auto&fr:frames){ auto r=dec.decode(fr.data(),fr.size()); for(auto&p:r){ if(n<pk.size()){ auto&o=pk[n]; bool same = p->getPayload().getLength()==o.getPayload().getLength() && !memcmp(p->getPayload().getRawPayload(), o.getPayload().getRawPayload(), o.getPayload().getLength()) && p->getMessageType()==o.getMessageType() && p->getTimestamp()==o.getTimestamp(); if(!same){ bad++; if(bad<6) printf("RT mismatch pkt %zu: len %zu/%zu mt %u/%u ts %llu/%llu mx=%zu mn=%zu first=%02x/%02x\n", n, p->getPayload().getLength(), o.getPayload().getLength(), (unsigned)p->getMessageType(), (unsigned)o.getMessageType(), (unsigned long long)p->getTimestamp(), (unsigned long long)o.getTimestamp(), mx, mn, p->getPayload().getRawPayload()[0], o.getPayload().getRawPayload()[0]);} } n++; } } if(n!=pk.size()){ bad++; if(bad<6) printf("RT count %zu vs %zu (mx=%zu)\n", n, pk.size(), mx);} };
  Encoder shared; shared.setDeviceId(3); shared.setStreamId(1);
  for(size_t mx=25; mx<=70; ++mx) for(size_t len=1; len<=3*mx; ++len){ Encoder e; runCase({{1,len}}, 0, mx, e); runCase({{1,len}}, mx/2, mx, shared); }
  for(size_t mx: {25,26,40,41,64,100}) for(size_t l1=1;l1<=mx+20;l1+=1) for(size_t l2=1;l2<=mx+20;l2+=3){ runCase({{1,l1},{1,l2}}, 0, mx, shared); runCase({{1,l1},{3,l2}}, std::min<size_t>(30,mx), mx, shared); }
  for(int i=0;i<20000;i++){ size_t mx=25+rng()%200; size_t mn=rng()%(mx+1); int n=1+rng()%8; std::vector<std::pair<uint8_t,size_t>> b; for(int k=0;k<n;k++){ uint8_t t= (rng()%4==0)?3:1; long cap=(long)mx-24; long L; switch(rng()%5){case 0: L=1+rng()%cap; break; case 1: L=cap-2+(long)(rng()%5); break; case 2: L=2*cap-2+(long)(rng()%5); break; case 3: L=1+rng()%8; break; default: L=1+rng()%(4*cap);} if(L<1) L=1; size_t len=(size_t)L; b.push_back({t,len}); } runCase(b,mn,mx,shared); }
  { std::vector<Packet> none; auto f=shared.encode(none.begin(), none.end(), DataContext{0,100}); if(!f.empty()){bad++; printf("empty batch -> frames\n");} }
  printf("cases=%ld bad=%ld seq=%u\n", cases, bad, shared.getSequenceCounter()); return bad!=0; }
