#include <cstdio>
#include <cstdlib>
#include <cstring>
#include <map>
#include <set>
#include <vector>
#include <random>
#include <asam_cmp/decoder.h>
using namespace ASAM::CMP;
typedef std::vector<uint8_t> Bytes;
struct MsgW{ uint64_t ts; uint32_t idw; uint8_t flags; uint8_t ptype; Bytes payload; size_t trailing; };
static Bytes frame(uint8_t ver,uint16_t dev,uint8_t mt,uint8_t st,uint16_t seq,const std::vector<MsgW>& msgs){ Bytes f{ver,0,(uint8_t)(dev>>8),(uint8_t)dev,mt,st,(uint8_t)(seq>>8),(uint8_t)seq};
  for(auto&m:msgs){ for(int i=7;i>=0;i--) f.push_back(m.ts>>(8*i)); for(int i=3;i>=0;i--) f.push_back(m.idw>>(8*i)); f.push_back(m.flags); f.push_back(m.ptype); f.push_back(m.payload.size()>>8); f.push_back(m.payload.size()); f.insert(f.end(),m.payload.begin(),m.payload.end()); for(size_t i=0;i<m.trailing;i++) f.push_back(0xE0+i%16);} return f; }
// reference decoder over raw frames (independent parse)
struct Open{ uint8_t ver,mt; uint16_t seq; int lastSeg; Bytes hdr; Bytes data; size_t segBytes; };
struct Deliver{ uint8_t ver,mt; Bytes hdr; Bytes data; bool valid_expected; };
struct Ref{ std::map<std::pair<uint16_t,uint8_t>,Open> open;
  std::vector<Deliver> feed(const Bytes& f){ std::vector<Deliver> out; if(f.size()<8||f[0]==0) return out; uint8_t ver=f[0],mt=f[4],st=f[5]; uint16_t dev=(f[2]<<8)|f[3], seq=(f[6]<<8)|f[7]; auto key=std::make_pair(dev,st); size_t off=8;
    while(off<f.size()){ size_t rem=f.size()-off; bool okmsg = rem>=16; size_t len=0; uint8_t flags=0,pt=0; if(okmsg){ flags=f[off+12]; pt=f[off+13]; len=(f[off+14]<<8)|f[off+15]; okmsg = len<=rem-16 && !(flags&0x40) && pt!=0; }
      if(!okmsg){ open.erase(key); break; }
      int seg=(flags>>2)&3; Bytes hdr(f.begin()+off,f.begin()+off+16), data(f.begin()+off+16,f.begin()+off+16+len);
      if(seg==0){ open.erase(key); out.push_back(Deliver{ver,mt,hdr,data,true}); off+=16+len; continue; }
      if(seg==1){ open[key]=Open{ver,mt,seq,1,hdr,data,16+len}; break; }
      auto it=open.find(key); bool cont = it!=open.end() && it->second.ver==ver && it->second.mt==mt && (uint16_t)(it->second.seq+1)==seq && (it->second.lastSeg==1||it->second.lastSeg==2);
      if(!cont){ open.erase(key); break; }
      Open& o=it->second; o.data.insert(o.data.end(),data.begin(),data.end()); o.seq=seq; o.lastSeg=seg; o.segBytes+=16+len;
      if(seg==3){ out.push_back(Deliver{o.ver,o.mt,o.hdr,o.data,true}); open.erase(key); }
      break; }
    return out; } };
int main(int argc,char**argv){ std::mt19937_64 rng(argc>1?atoi(argv[1]):1); long frames=0, delivered=0, bad=0, maxopen=0, wraps=0; std::set<uint64_t> states;
  uint16_t devs[]={0,1,0x0100,0xFFFF}; uint8_t sts[]={0,1,255};
  for(int h=0; h<30000 && bad<5; ++h){ Decoder dec; Ref ref; std::map<std::pair<uint16_t,uint8_t>,uint16_t> ctr; int nf=5+rng()%60; std::vector<Bytes> hist;
    // per endpoint pending script state
    struct Scr{ int remaining; uint8_t ver,mt,pt; bool active; }; std::map<std::pair<uint16_t,uint8_t>,Scr> scr;
    for(int k=0;k<nf;++k){ uint16_t dev=devs[rng()%2+(rng()%8==0?2:0)]; uint8_t st=sts[rng()%3]; auto key=std::make_pair(dev,st); if(!ctr.count(key)) ctr[key]= (uint16_t[]){0,1,1000,65533,65534,65535}[rng()%6]; uint16_t seq=ctr[key]++; if(seq==65535) wraps++;
      Bytes f; int r=rng()%100; Scr& s=scr[key]; auto mk=[&](uint8_t flags,size_t len,size_t trailing,uint8_t pt){ MsgW m; m.ts=rng(); m.idw=rng(); m.flags=flags; m.ptype=pt; m.payload.resize(len); for(auto&b:m.payload) b=rng(); m.trailing=trailing; return m; };
      if(s.active && r<70){ bool last = --s.remaining<=0; uint8_t ver=s.ver, mt=s.mt; uint16_t sq=seq; if(r<4) ver++; else if(r<8) mt^=2; else if(r<12){ sq+=1+rng()%3; } f=frame(ver,dev,mt,st,sq,{mk((last?0x0c:0x08)|(rng()&0x33), rng()%40, (rng()%3==0)?rng()%20:0, s.pt)}); if(last) s.active=false; }
      else if(r<45){ s.active=true; s.remaining=1+rng()%4; s.ver=1+rng()%3; s.mt=(rng()%3==0)?3:1; s.pt=0x70+rng()%4; f=frame(s.ver,dev,s.mt,st,seq,{mk(0x04|(rng()&0x33), rng()%40, (rng()%3==0)?rng()%20:0, s.pt)}); }
      else if(r<75){ int n=rng()%4; std::vector<MsgW> ms; for(int i=0;i<n;i++) ms.push_back(mk(rng()&0x33, rng()%30, 0, 0x70+rng()%4)); if(n) ms.back().trailing=(rng()%3==0)?rng()%15:0; /* trailing after last = garbage/invalid tail */ f=frame(1+rng()%3,dev,1,st,seq,ms); s.active=false; }
      else if(r<82){ f=frame(1,dev,1,st,seq,{mk(0x40, 5,0,0x70)}); s.active=false; }      // error flag
      else if(r<88){ f=frame(1,dev,1,st,seq,{mk((rng()%2?0x08:0x0c), rng()%20,0,0x71)}); s.active=false; } // orphan
      else if(r<94){ f=Bytes(28+rng()%30,0); f[5]=1+rng()%3; f[24]=0; f[25]=f.size()-28>0?f.size()-28:1; ctr[key]--; } // tecmp-ish (first byte 0)
      else { f=Bytes(rng()%8, 1); ctr[key]--; }
      hist.push_back(f); frames++;
      Bytes* heap=new Bytes(f); auto got=dec.decode(heap->data(),heap->size()); delete heap; auto exp=ref.feed(f);
      bool tecmp = f.size()>=1 && f[0]==0; bool ok=true;
      if(!tecmp){ ok = got.size()==exp.size(); for(size_t i=0; ok && i<got.size(); ++i){ auto&p=*got[i]; auto&e=exp[i]; uint64_t ts=0; for(int b=0;b<8;b++) ts=(ts<<8)|e.hdr[b]; uint32_t ifid=(e.hdr[8]<<24)|(e.hdr[9]<<16)|(e.hdr[10]<<8)|e.hdr[11]; uint16_t vid=(e.hdr[10]<<8)|e.hdr[11];
          ok = p.getVersion()==e.ver && (uint8_t)p.getMessageType()==e.mt && p.getTimestamp()==ts && (e.mt==1? p.getInterfaceId()==ifid : p.getVendorId()==vid) && ((p.getCommonFlags()&~0x0c)==(e.hdr[12]&~0x0c)) && p.getPayloadType()==e.hdr[13] && p.getPayload().getLength()==e.data.size() && !memcmp(p.getPayload().getRawPayload(), e.data.data(), e.data.size()); delivered++; } }
      // C17 pending
      auto pend=dec.verifPendingReassemblies(); if(pend.size()!=ref.open.size()) ok=false; for(auto&pe:pend){ auto it=ref.open.find({pe.deviceId,pe.streamId}); if(it==ref.open.end() || pe.bufferedBytes>it->second.segBytes) ok=false; }
      maxopen=std::max<long>(maxopen,pend.size()); uint64_t sig=1469598103934665603ull; for(auto&o:ref.open){ sig=(sig^o.first.first)*1099511628211ull; sig=(sig^o.first.second)*1099511628211ull; sig=(sig^o.second.data.size()/8)*1099511628211ull;} states.insert(sig);
      if(!ok){ bad++; printf("MISMATCH hist %d frame %d got=%zu exp=%zu pend=%zu refopen=%zu\n", h,k,got.size(),exp.size(),pend.size(),ref.open.size()); for(size_t i=std::max(0,k-3); i<=(size_t)k; ++i){ printf("  f%zu:",i); for(size_t b=0;b<std::min<size_t>(hist[i].size(),28);++b) printf(" %02x",hist[i][b]); printf(" (%zu)\n", hist[i].size()); } break; } } }
  printf("frames=%ld delivered=%ld bad=%ld maxopen=%ld wraps=%ld states=%zu\n", frames, delivered, bad, maxopen, wraps, states.size()); return bad!=0; }
