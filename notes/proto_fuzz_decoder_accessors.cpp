#include <asam_cmp/decoder.h>
#include <asam_cmp/can_payload.h>
#include <asam_cmp/lin_payload.h>
#include <asam_cmp/ethernet_payload.h>
#include <asam_cmp/analog_payload.h>
#include <asam_cmp/capture_module_payload.h>
#include <asam_cmp/interface_payload.h>
#include <cstdint>
#include <cstring>
using namespace ASAM::CMP;
static volatile uint64_t sink;
static void touch(const uint8_t* p,size_t n){ uint64_t s=0; for(size_t i=0;i<n;i++) s+=p[i]; sink+=s; }
extern "C" int LLVMFuzzerTestOneInput(const uint8_t* d, size_t n){ Decoder dec; size_t off=0; std::vector<std::shared_ptr<Packet>> keep;
  while(off+2<=n){ size_t l=d[off]|(d[off+1]<<8); off+=2; if(l>n-off) l=n-off; uint8_t* b=new uint8_t[l?l:1]; memcpy(b,d+off,l); auto r=dec.decode(b,l); delete[] b; off+=l; if(r.size()>l/12) __builtin_trap();
    for(auto&p:r){ keep.push_back(p); } }
  for(auto&p:keep){ auto& pl=p->getPayload(); touch(pl.getRawPayload(), pl.getLength()); if(!p->isValid()) continue; auto t=pl.getType().getType();
    if(t==PayloadType::can||t==PayloadType::canFd){ auto& c=static_cast<const CanPayloadBase&>(pl); if(c.getData()) touch(c.getData(), c.getDataLength()); }
    else if(t==PayloadType::lin){ auto& c=static_cast<const LinPayload&>(pl); if(c.getData()) touch(c.getData(), c.getDataLength()); }
    else if(t==PayloadType::ethernet){ auto& c=static_cast<const EthernetPayload&>(pl); if(c.getData()) touch(c.getData(), c.getDataLength()); }
    else if(t==PayloadType::analog){ auto& c=static_cast<const AnalogPayload&>(pl); if(c.getData()) touch(c.getData(), c.getSamplesCount()*(c.getSampleDt()==AnalogPayload::SampleDt::aInt16?2:4)); }
    else if(t==PayloadType::cmStatMsg){ auto& c=static_cast<const CaptureModulePayload&>(pl); for(auto sv: {c.getDeviceDescription(), c.getSerialNumber(), c.getHardwareVersion(), c.getSoftwareVersion(), c.getVendorDataStringView()}) touch((const uint8_t*)sv.data(), sv.size()); touch(c.getVendorData(), c.getVendorDataLength()); }
    else if(t==PayloadType::ifStatMsg){ auto& c=static_cast<const InterfacePayload&>(pl); sink+=c.getFeatureSupportBitmask(); if(c.getStreamIds()) touch(c.getStreamIds(), c.getStreamIdsCount()); if(c.getVendorData()) touch(c.getVendorData(), c.getVendorDataLength()); } }
  return 0; }
