#!/bin/sh
# Development tooling: re-run every stored seeded change (seeded/seed-*/) against the current checks, on scratch
# worktrees (SEEDCHECK_SCRATCH=1: /repo stays untouched), N at a time. usage: vf/reseed.sh [parallel=4] [pattern]
cd "$(dirname "$0")/.." || exit 2
PAR=${1:-4}
PAT=${2:-seed-}
ls -d seeded/seed-* | grep -- "$PAT" | while read -r d; do
    id=$(basename "$d")
    props=$(python3 -c "import json,sys; m=json.load(open('$d/meta.json')); print(' '.join([m['breaks']]+[p for p in m.get('also_run',[]) if p!=m['breaks']]))")
    echo "$d $id $props"
done | xargs -P "$PAR" -L 1 sh -c 'SEEDCHECK_SCRATCH=1 python3 vf/seedcheck.py "$0" "$1" $2 $3 $4 $5 2>&1 | grep -E "CAUGHT|MISSED|NOT CONFIRMED" | sed "s/^/$1 /"'
