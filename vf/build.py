#!/usr/bin/env python3
"""Flavour builds of the library under test plus harness drivers.

Everything is compiled from the *current working tree* of $VERIF_REPO (default /repo): the cache key is a
hash over the bytes of every file under src/ and include/, the compiler version and the flag string, so an
edited tree can never be served stale objects (content addressed, not mtime based).
Hooks are always on (-DASAM_CMP_VERIF).
"""
import fcntl
import hashlib
import os
import shutil
import subprocess
import sys
import time
from concurrent.futures import ThreadPoolExecutor

VERIF = os.path.dirname(os.path.dirname(os.path.abspath(__file__)))
BUILD = os.path.join(VERIF, '.build')
HARNESS = os.path.join(VERIF, 'harness')


def repo():
    return os.environ.get('VERIF_REPO', '/repo')


COMMON = ['-std=c++17', '-g', '-fno-omit-frame-pointer', '-DASAM_CMP_VERIF']
SAN_OFF = '-fno-sanitize=vptr,alignment,nonnull-attribute'

FLAVOURS = {
    # ASan + UBSan, vector annotations so reads in [size, capacity) are caught too
    'asan': dict(cxx='g++', flags=['-O1', '-fsanitize=address,undefined', SAN_OFF, '-fno-sanitize-recover=all',
                                   '-D_GLIBCXX_SANITIZE_VECTOR'], ld=[]),  # the compile flags (which also reach the link step) already select the runtimes
    # the repository's own configuration (RelWithDebInfo: -O2 -DNDEBUG) under the same sanitizers: what a user's release build
    # compiles, incl. anything guarded by NDEBUG and anything only the optimiser brings out
    'asanR': dict(cxx='g++', flags=['-O2', '-DNDEBUG', '-fsanitize=address,undefined', SAN_OFF, '-fno-sanitize-recover=all',
                                    '-D_GLIBCXX_SANITIZE_VECTOR'], ld=[]),
    'tsan': dict(cxx='g++', flags=['-O1', '-fsanitize=thread'], ld=['-pthread']),
    'tsanR': dict(cxx='g++', flags=['-O2', '-DNDEBUG', '-fsanitize=thread'], ld=['-pthread']),
    'plainR0': dict(cxx='g++', flags=['-O2', '-DNDEBUG', '-ftrivial-auto-var-init=zero'], ld=['-rdynamic', '-ldl']),
    'plain': dict(cxx='g++', flags=['-O1'], ld=[]),
    'plain0': dict(cxx='g++', flags=['-O1', '-ftrivial-auto-var-init=zero'], ld=['-rdynamic', '-ldl']),
    'plainP': dict(cxx='g++', flags=['-O1', '-ftrivial-auto-var-init=pattern'], ld=['-rdynamic', '-ldl']),
    'fuzz': dict(cxx='clang++', flags=['-O1', '-fsanitize=fuzzer-no-link,address,undefined',
                                       '-fno-sanitize=vptr,alignment,nonnull-attribute,object-size',
                                       '-fno-sanitize-recover=all'],
                 ld=['-fsanitize=fuzzer,address,undefined', '-fno-sanitize=vptr,alignment,nonnull-attribute,object-size']),
}

_ver_cache = {}


def cxx_version(cxx):
    if cxx not in _ver_cache:
        _ver_cache[cxx] = subprocess.run([cxx, '--version'], capture_output=True, text=True).stdout.splitlines()[0]
    return _ver_cache[cxx]


def _files(root, exts):
    out = []
    for d, _, fs in os.walk(root):
        for f in fs:
            if f.endswith(exts):
                out.append(os.path.join(d, f))
    return sorted(out)


def tree_hash():
    h = hashlib.sha256()
    r = repo()
    for p in _files(os.path.join(r, 'src'), ('.cpp', '.h')) + _files(os.path.join(r, 'include'), ('.h',)):
        h.update(os.path.relpath(p, r).encode())
        h.update(b'\0')
        h.update(open(p, 'rb').read())
        h.update(b'\0')
    return h.hexdigest()


def harness_hash(extra_sources):
    h = hashlib.sha256()
    for p in _files(os.path.join(HARNESS, 'common'), ('.h',)) + sorted(extra_sources):
        h.update(os.path.basename(p).encode())
        h.update(open(p, 'rb').read())
    return h.hexdigest()


def _run(cmd):
    p = subprocess.run(cmd, capture_output=True, text=True)
    if p.returncode != 0:
        raise RuntimeError('build failed: %s\n%s' % (' '.join(cmd), p.stderr[-4000:]))


class Lock:
    def __init__(self, name):
        os.makedirs(BUILD, exist_ok=True)
        self.path = os.path.join(BUILD, name + '.lock')

    def __enter__(self):
        self.f = open(self.path, 'w')
        fcntl.flock(self.f, fcntl.LOCK_EX)

    def __exit__(self, *a):
        fcntl.flock(self.f, fcntl.LOCK_UN)
        self.f.close()


def lib_dir(flavour):
    fl = FLAVOURS[flavour]
    key = hashlib.sha256((tree_hash() + cxx_version(fl['cxx']) + ' '.join(COMMON + fl['flags']) + repo()).encode()).hexdigest()[:16]
    return os.path.join(BUILD, '%s-%s' % (flavour, key))


def prune(flavour, keep):
    """disk limit: keep the newest four generations per flavour; never remove one that was used within the last
    30 minutes (another check may be running from it)"""
    try:
        ds = [os.path.join(BUILD, d) for d in os.listdir(BUILD) if d.startswith(flavour + '-') and os.path.isdir(os.path.join(BUILD, d))]
    except FileNotFoundError:
        return
    ds.sort(key=lambda d: os.path.getmtime(d), reverse=True)
    now = time.time()
    for d in ds[4:]:
        if d != keep and now - os.path.getmtime(d) > 1800:
            shutil.rmtree(d, ignore_errors=True)


def build_lib(flavour, jobs=16):
    """returns (dir, [objects])"""
    fl = FLAVOURS[flavour]
    d = lib_dir(flavour)
    r = repo()
    srcs = _files(os.path.join(r, 'src'), ('.cpp',))
    objs = [os.path.join(d, os.path.basename(s)[:-4] + '.o') for s in srcs]
    stamp = os.path.join(d, 'lib.ok')
    with Lock('lib-' + flavour):
        if os.path.exists(stamp) and all(os.path.exists(o) for o in objs):
            os.utime(d)
            return d, objs
        os.makedirs(d, exist_ok=True)
        inc = ['-I' + os.path.join(r, 'include')]
        cmds = [[fl['cxx']] + COMMON + fl['flags'] + inc + ['-c', s, '-o', o] for s, o in zip(srcs, objs)]
        with ThreadPoolExecutor(max_workers=jobs) as ex:
            list(ex.map(_run, cmds))
        open(stamp, 'w').write(time.strftime('%F %T'))
        prune(flavour, d)
    return d, objs


def build_driver(flavour, driver, extra_flags=(), extra_ld=(), jobs=16):
    """compile harness/<driver>.cpp against the flavour's library objects; returns the binary path"""
    fl = FLAVOURS[flavour]
    d, objs = build_lib(flavour, jobs)
    src = os.path.join(HARNESS, driver + '.cpp')
    hh = hashlib.sha256((harness_hash([src]) + ' '.join(COMMON + fl['flags'] + fl['ld']) + ' '.join(extra_flags) + ' '.join(extra_ld)).encode()).hexdigest()[:12]
    exe = os.path.join(d, '%s-%s' % (driver, hh))
    with Lock('drv-%s-%s' % (flavour, driver)):
        if os.path.exists(exe):
            os.utime(d)
            return exe
        for old in os.listdir(d):
            if old.startswith(driver + '-'):
                try:
                    os.remove(os.path.join(d, old))
                except OSError:
                    pass
        inc = ['-I' + os.path.join(repo(), 'include'), '-I' + os.path.join(HARNESS, 'common')]
        tmp = exe + '.tmp%d' % os.getpid()
        cmd = [fl['cxx']] + COMMON + fl['flags'] + list(extra_flags) + inc + [src] + objs + ['-o', tmp] + fl['ld'] + list(extra_ld)
        try:
            _run(cmd)
        except Exception:
            # the harness copies Decoder objects (they are copyable on the pinned tree); a tree on which they no longer are must not
            # stop the checks from running: second attempt without the copy-based monitors
            _run(cmd[:1] + ['-DVF_NO_DECODER_COPY'] + cmd[1:])
            sys.stderr.write('note: %s/%s built with -DVF_NO_DECODER_COPY (Decoder is not copyable on this tree)\n' % (flavour, driver))
        os.replace(tmp, exe)
    return exe


# which (flavour, driver) pairs exist; used by --warm (MANIFEST.setup_cmd)
TARGETS = []


def warm():
    from check import all_targets  # noqa
    t0 = time.time()
    flavours = sorted({f for f, _ in all_targets()})
    for f in flavours:
        build_lib(f)
    with ThreadPoolExecutor(max_workers=4) as ex:
        list(ex.map(lambda t: build_driver(t[0], t[1], jobs=4), all_targets()))
    print('warm build done in %.1fs: %s' % (time.time() - t0, ', '.join('%s/%s' % t for t in all_targets())))


if __name__ == '__main__':
    sys.path.insert(0, os.path.dirname(os.path.abspath(__file__)))
    if len(sys.argv) > 1 and sys.argv[1] == '--warm':
        warm()
    elif len(sys.argv) > 2:
        print(build_driver(sys.argv[1], sys.argv[2]))
    else:
        print('usage: build.py --warm | build.py <flavour> <driver>')
