#!/usr/bin/env python3
"""Development helper: regenerate MANIFEST.json from vf/props.py (claimed checks) and properties.jsonl
(everything not claimed is listed under not_applicable with its reason)."""
import json
import os
import subprocess
import sys

HERE = os.path.dirname(os.path.abspath(__file__))
sys.path.insert(0, HERE)
from props import PROPS  # noqa: E402

VERIF = os.path.dirname(HERE)

NOT_BUILT = 'check not built yet (work in progress; DESIGN.md section 6 has the plan) - runtime monitoring does apply to this property'


def hook_commits():
    r = subprocess.run(['git', '-C', '/repo', 'log', '--format=%H %s'], capture_output=True, text=True)
    return [l.split()[0] for l in r.stdout.splitlines() if 'verif hook' in l]


def main():
    ids = [json.loads(l)['id'] for l in open(os.path.join(VERIF, 'properties.jsonl'))]
    checks = []
    for pid in ids:
        if pid not in PROPS:
            continue
        p = PROPS[pid]
        checks.append(dict(
            property_id=pid,
            quick_cmd='python3 vf/check.py %s --tier quick' % pid,
            thorough_cmd='python3 vf/check.py %s --tier thorough' % pid,
            evidence_file='/verif/evidence/%s.json' % pid,
            replay_cmd_template='python3 vf/check.py %s --replay {path}' % pid,
            engine='vf/check.py',
            level_claimed=dict(category='exploration', text=p['level_text'], design_ref=p.get('design_ref', 'DESIGN.md section 6, ' + pid)),
            level_note=p['level_note'],
            technique=p['technique'],
        ))
    na = [dict(property_id=pid, reason=NOT_BUILT) for pid in ids if pid not in PROPS]
    m = dict(
        version=1,
        setup_cmd='python3 vf/build.py --warm',
        hooks=dict(guard='ASAM_CMP_VERIF',
                   enable='-DASAM_CMP_VERIF on every library and harness translation unit compiled by vf/build.py (checks compile /repo/src directly, not through CMake)',
                   baseline_off_cmd='cmake -G Ninja -S /repo -B /repo/_build && cmake --build /repo/_build && ctest --test-dir /repo/_build -j8 --timeout 900',
                   source_commits=hook_commits(), add_only=True),
        engines=[dict(name='vf/check.py', path='/verif/vf/check.py', serves_properties=[c['property_id'] for c in checks],
                      kind_free_text='orchestrator: content-hash flavour builds of /repo (ASan+UBSan, TSan, plain, libFuzzer), sharded harness drivers with independent oracles, known-findings matching, evidence writer')],
        checks=checks,
        notes='Technique family: runtime monitoring and sanitizers. exit 0 held / 1 violation / 2 inconclusive. VERIF_SEED, VERIF_TIER, VERIF_JOBS, VERIF_REPO honoured. '
              'known_findings.json lists repaired defects as "fixed" entries (they suppress nothing).',
        not_applicable=na,
    )
    json.dump(m, open(os.path.join(VERIF, 'MANIFEST.json'), 'w'), indent=1)
    print('MANIFEST.json: %d checks, %d not_applicable' % (len(checks), len(na)))


if __name__ == '__main__':
    main()
