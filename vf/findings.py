"""known_findings.json handling: matching is on (property, key) exactly; 'fixed' entries suppress nothing.
The file is never written at run time."""
import json
import os

VERIF = os.path.dirname(os.path.dirname(os.path.abspath(__file__)))
PATH = os.path.join(VERIF, 'known_findings.json')


def load():
    try:
        return json.load(open(PATH)).get('findings', [])
    except FileNotFoundError:
        return []


def open_finding(prop, key):
    """returns the open finding entry matching (prop, key) or None"""
    for f in load():
        if f.get('status') == 'open' and f.get('property') == prop and f.get('key') == key:
            return f
    return None
