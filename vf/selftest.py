#!/usr/bin/env python3
"""Mutant self-test (development tooling, not a registered check).

For every entry of mutants/index.json: create a scratch git worktree of /repo's HEAD outside /repo and
/verif, apply the patch, run the listed properties' quick checks with VERIF_REPO=<scratch>, expect exit 1
with a VIOLATION line, remove the worktree. Finally (--clean) expect exit 0 on the unpatched tree.

usage: selftest.py [--only NAME[,NAME]] [--props C01,C02] [--tier quick] [--build-tests]
"""
import json
import os
import shutil
import subprocess
import sys
import tempfile
import time

VERIF = os.path.dirname(os.path.dirname(os.path.abspath(__file__)))
MUT = os.path.join(VERIF, 'mutants')


def sh(cmd, **kw):
    return subprocess.run(cmd, capture_output=True, text=True, **kw)


def main():
    only = None
    props_filter = None
    tier = 'quick'
    build_tests = False
    a = sys.argv[1:]
    i = 0
    while i < len(a):
        if a[i] == '--only':
            only = a[i + 1].split(',')
            i += 2
        elif a[i] == '--props':
            props_filter = a[i + 1].split(',')
            i += 2
        elif a[i] == '--tier':
            tier = a[i + 1]
            i += 2
        elif a[i] == '--build-tests':
            build_tests = True
            i += 1
        else:
            i += 1
    index = json.load(open(os.path.join(MUT, 'index.json')))
    results = []
    for m in index:
        name = m['name']
        if only and name not in only:
            continue
        props = [p for p in m['expect'] if (not props_filter or p in props_filter)]
        if not props:
            continue
        scratch = tempfile.mkdtemp(prefix='vfmut-', dir='/tmp')
        os.rmdir(scratch)
        r = sh(['git', '-C', '/repo', 'worktree', 'add', '-q', '--detach', scratch, 'HEAD'])
        if r.returncode != 0:
            print('worktree failed', r.stderr)
            return 2
        try:
            r = sh(['git', '-C', scratch, 'apply', '--whitespace=nowarn', os.path.join(MUT, m['patch'])])
            if r.returncode != 0:
                print('%-40s PATCH DOES NOT APPLY: %s' % (name, r.stderr.strip()[:200]))
                results.append((name, 'patch-failed'))
                continue
            if build_tests:
                bd = os.path.join(scratch, '_build')
                r = sh('cmake -G Ninja -S %s -B %s -DCMAKE_BUILD_TYPE=RelWithDebInfo >/dev/null && cmake --build %s 2>&1 | tail -3 && %s/bin/test_asam_cmp | tail -1'
                       % (scratch, bd, bd, bd), shell=True)
                tests_ok = 'PASSED' in r.stdout and 'FAILED' not in r.stdout
                print('%-40s repo tests: %s' % (name, 'pass' if tests_ok else 'FAIL ' + r.stdout[-300:]))
            for p in props:
                env = dict(os.environ, VERIF_REPO=scratch, VERIF_NO_EVIDENCE='1')
                t0 = time.time()
                r = sh([sys.executable, os.path.join(VERIF, 'vf', 'check.py'), p, '--tier', tier], env=env)
                viol = [l for l in r.stdout.splitlines() if l.startswith('violation key=')]
                ok = r.returncode == 1 and 'VIOLATION property=%s' % p in r.stdout
                keys = ', '.join(sorted({l.split()[1].replace('key=', '') for l in viol}))[:300]
                print('%-40s %s: %s (exit %d, %.1fs) %s' % (name, p, 'CAUGHT' if ok else 'MISSED', r.returncode, time.time() - t0, keys))
                if not ok and r.returncode != 0:
                    print(r.stdout[-600:])
                results.append((name + ':' + p, 'caught' if ok else 'missed'))
        finally:
            sh(['git', '-C', '/repo', 'worktree', 'remove', '--force', scratch])
            shutil.rmtree(scratch, ignore_errors=True)
    missed = [n for n, s in results if s != 'caught']
    print('\n%d/%d caught; missed: %s' % (len(results) - len(missed), len(results), ', '.join(missed) or '-'))
    return 1 if missed else 0


if __name__ == '__main__':
    sys.exit(main())
