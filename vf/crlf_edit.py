#!/usr/bin/env python3
"""Development helper (not a check): exact-substring replacement in a /repo source file that
preserves the file's line endings (34 of the repo's files are CRLF; fix/hook commits must stay minimal).

usage: crlf_edit.py FILE OLD_SNIPPET_FILE NEW_SNIPPET_FILE
Snippet files are LF; they are converted to the target's convention before matching.
"""
import sys


def edit(path, old, new):
    data = open(path, 'rb').read()
    crlf = b'\r\n' in data
    o = old.encode().replace(b'\r\n', b'\n')
    n = new.encode().replace(b'\r\n', b'\n')
    if crlf:
        o = o.replace(b'\n', b'\r\n')
        n = n.replace(b'\n', b'\r\n')
    cnt = data.count(o)
    if cnt != 1:
        raise SystemExit(f"{path}: expected exactly one match, found {cnt}")
    open(path, 'wb').write(data.replace(o, n))


if __name__ == '__main__':
    edit(sys.argv[1], open(sys.argv[2]).read(), open(sys.argv[3]).read())
