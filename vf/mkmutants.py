#!/usr/bin/env python3
"""Development helper: (re)generate hand-written mutant patches from (file, old, new) edit lists against
/repo's HEAD, in a scratch worktree outside /repo and /verif. Revert-of-fix mutants are generated separately
(git diff <fix> <fix>^). Writes mutants/<name>.patch and merges entries into mutants/index.json."""
import json
import os
import subprocess
import sys
import tempfile

HERE = os.path.dirname(os.path.abspath(__file__))
sys.path.insert(0, HERE)
from crlf_edit import edit  # noqa: E402
from mutant_defs import MUTANTS  # noqa: E402

VERIF = os.path.dirname(HERE)
MUT = os.path.join(VERIF, 'mutants')


def sh(cmd):
    return subprocess.run(cmd, capture_output=True, text=True)


def main():
    names = sys.argv[1:]
    scratch = tempfile.mkdtemp(prefix='vfmk-', dir='/tmp')
    os.rmdir(scratch)
    assert sh(['git', '-C', '/repo', 'worktree', 'add', '-q', '--detach', scratch, 'HEAD']).returncode == 0
    idx_path = os.path.join(MUT, 'index.json')
    try:
        index = json.load(open(idx_path))
    except FileNotFoundError:
        index = []
    byname = {m['name']: m for m in index}
    try:
        for m in MUTANTS:
            if names and m['name'] not in names:
                continue
            for f, old, new in m['edits']:
                edit(os.path.join(scratch, f), old, new)
            d = subprocess.run(['git', '-C', scratch, 'diff'], capture_output=True)
            open(os.path.join(MUT, m['name'] + '.patch'), 'wb').write(d.stdout)
            sh(['git', '-C', scratch, 'checkout', '--', '.'])
            byname[m['name']] = dict(name=m['name'], patch=m['name'] + '.patch', expect=m['expect'], what=m['what'])
            print('wrote', m['name'])
    finally:
        sh(['git', '-C', '/repo', 'worktree', 'remove', '--force', scratch])
    json.dump(sorted(byname.values(), key=lambda x: x['name']), open(idx_path, 'w'), indent=1)


if __name__ == '__main__':
    main()
