"""Stage runners that need more than 'run the sharded driver': ThreadSanitizer / helgrind log analysis (C19),
valgrind memcheck (C20), libFuzzer (thorough tier of C02 / C03 / C15). Each returns a list of ShardResult."""
import glob
import hashlib
import json
import os
import re
import shutil
import subprocess
import time

import build


TSAN_FRAME = re.compile(r'#\d+ (?:0x[0-9a-f]+ in )?(.+?) (/\S+?):\d+')


def _lib_frames(api, text):
    """library functions (line numbers stripped) appearing in a report block (ASan and TSan frame formats)"""
    root = os.path.realpath(build.repo())
    out = []
    for m in TSAN_FRAME.finditer(text):
        path = os.path.realpath(m.group(2))
        if path.startswith(root + '/src/') or path.startswith(root + '/include/'):
            out.append(m.group(1).split('(')[0].strip())
    return out


# ---------------------------------------------------------------------------------------------- TSan

def run_tsan(prop, tier, seed, stage, workdir, api):
    logdir = os.path.join(workdir, 'tsanlogs-' + stage['flavour'])
    os.makedirs(logdir, exist_ok=True)
    st = dict(stage)
    env = dict(stage.get('env', {}))
    env['TSAN_OPTIONS'] = 'halt_on_error=0:exitcode=0:second_deadlock_stack=1:history_size=4:log_path=%s/tsan' % logdir
    st['env'] = env
    results = api.run_stage_shards(prop, tier, seed, st, workdir)
    blocks = []
    for path in glob.glob(os.path.join(logdir, 'tsan.*')):
        text = open(path, errors='replace').read()
        for m in re.finditer(r'WARNING: ThreadSanitizer: ([^\n(]+).*?(?=\nWARNING: ThreadSanitizer|\Z)', text, re.S):
            blocks.append((m.group(1).strip(), m.group(0)))
    seen = {}
    for kind, text in blocks:
        frames = _lib_frames(api, text)
        key = (kind, tuple(sorted(set(frames))[:6]))
        seen.setdefault(key, text)
    r0 = results[0]
    lib_reports = 0
    for (kind, frames), text in sorted(seen.items()):
        if frames:
            lib_reports += 1
            r0.violations.append(dict(prop=prop, key='tsan:%s:%s' % (kind.replace(' ', '-'), frames[0]), case=-1, seed=seed, tier=tier,
                                      detail='ThreadSanitizer report involving library frames %s' % ', '.join(frames[:4]),
                                      input='', stderr=text[:6000]))
        else:
            r0.inconclusive = 'ThreadSanitizer report without library frames (harness problem): %s' % text[:400]
    r0.reports.append(dict(evaluations=0, cases_run=0,
                           counters={'tsan_report_blocks': len(blocks), 'tsan_distinct_reports': len(seen), 'tsan_reports_with_library_frames': lib_reports,
                                     'tsan_log_files': len(glob.glob(os.path.join(logdir, 'tsan.*')))},
                           features={}, samples=[]))
    return results


# ---------------------------------------------------------------------------------------------- helgrind

def run_helgrind(prop, tier, seed, stage, workdir, api):
    exe = build.build_driver(stage['flavour'], stage['driver'])
    res = api.ShardResult()
    out = os.path.join(workdir, 'helgrind.json')
    log = os.path.join(workdir, 'helgrind.log')
    env = dict(os.environ)
    env.update(stage.get('env', {}))
    cmd = ['valgrind', '--tool=helgrind', '--error-exitcode=0', '--log-file=' + log, '--history-level=approx',
           exe, '--prop', prop, '--tier', tier, '--seed', str(seed), '--out', out]
    try:
        subprocess.run(cmd, env=env, stdout=subprocess.DEVNULL, stderr=subprocess.DEVNULL, timeout=stage.get('timeout', {}).get(tier, 3600))
    except subprocess.TimeoutExpired:
        res.inconclusive = 'helgrind run exceeded its watchdog'
        return [res]
    try:
        rep = json.load(open(out))
        res.reports.append(rep)
    except Exception:
        res.inconclusive = 'helgrind run produced no report'
        return [res]
    text = open(log, errors='replace').read()
    blocks = re.findall(r'Possible data race.*?(?=\n==\d+== \n==\d+== -{10,}|\Z)', text, re.S)
    libs = 0
    root = os.path.realpath(build.repo())
    seen = set()
    for b in blocks:
        # valgrind frames: "by 0x...: func (file.cpp:123)" - file names only; match against the library's file names
        files = set(re.findall(r'\(([\w.]+\.(?:cpp|h)):\d+\)', b))
        libfiles = [f for f in files if os.path.exists(os.path.join(root, 'src', f)) or os.path.exists(os.path.join(root, 'include', 'asam_cmp', f))]
        if libfiles:
            k = tuple(sorted(libfiles))
            if k in seen:
                continue
            seen.add(k)
            libs += 1
            res.violations.append(dict(prop=prop, key='helgrind:data-race:%s' % libfiles[0], case=-1, seed=seed, tier=tier,
                                       detail='helgrind reports a possible data race in %s' % ', '.join(libfiles), input='', stderr=b[:5000]))
    res.reports.append(dict(evaluations=0, cases_run=0, counters={'helgrind_race_blocks': len(blocks), 'helgrind_races_in_library_files': libs}, features={}, samples=[]))
    return [res]


# ---------------------------------------------------------------------------------------------- memcheck

def run_memcheck(prop, tier, seed, stage, workdir, api):
    """run shards of the driver under valgrind memcheck; client-check failures and uninitialised-value errors with a
    library frame are violations, errors with harness-only stacks are inconclusive"""
    exe = build.build_driver(stage['flavour'], stage['driver'], extra_flags=stage.get('extra_flags', ()))
    nshards = stage.get('shards', {}).get(tier, api.jobs())
    root = os.path.realpath(build.repo())
    sdir = os.path.join(workdir, 'memcheck')
    os.makedirs(sdir, exist_ok=True)

    def one(shard):
        res = api.ShardResult()
        out = os.path.join(sdir, 'shard%02d.json' % shard)
        log = os.path.join(sdir, 'shard%02d.vg' % shard)
        cmd = ['valgrind', '--tool=memcheck', '--track-origins=yes', '--error-exitcode=0', '--num-callers=24', '--error-limit=no', '--log-file=' + log,
               exe, '--prop', prop, '--tier', tier, '--seed', str(seed), '--shard', str(shard), '--nshards', str(nshards), '--out', out] + list(stage.get('args', []))
        try:
            subprocess.run(cmd, stdout=subprocess.DEVNULL, stderr=subprocess.DEVNULL, timeout=stage.get('timeout', {}).get(tier, 7200))
        except subprocess.TimeoutExpired:
            res.inconclusive = 'memcheck shard exceeded its watchdog'
            return res
        try:
            res.reports.append(json.load(open(out)))
        except Exception:
            res.inconclusive = 'memcheck shard %d produced no report' % shard
            return res
        try:
            import array
            a = array.array('Q')
            a.frombytes(open(out + '.sigs', 'rb').read())
            res.sigs.update(a)
        except OSError:
            pass
        try:
            for line in open(out + '.viol'):
                if line.strip():
                    res.violations.append(json.loads(line))
        except OSError:
            pass
        text = open(log, errors='replace').read()
        errs = re.findall(r'==\d+== ((?:Conditional jump|Use of uninitialised|Uninitialised byte|Syscall param|Invalid read|Invalid write|Invalid free|Mismatched free)[^\n]*\n(?:==\d+== [^\n]*\n)*?)(?===\d+== \n)', text)
        nlib = 0
        seen = set()
        for e in errs:
            kind = e.split('\n')[0].strip()
            kind = re.sub(r'\d+', 'N', kind)
            files = re.findall(r'(?:at|by) 0x[0-9A-F]+: (.+?) \(([\w.]+):\d+\)', e)
            libf = [fn.split('(')[0] for fn, f in files if os.path.exists(os.path.join(root, 'src', f)) or os.path.exists(os.path.join(root, 'include', 'asam_cmp', f))]
            if 'VALGRIND_CHECK' in e or 'client check request' in e:
                continue  # reported by the driver itself through the .viol file with full context
            if libf:
                key = 'memcheck:%s:%s' % (re.sub(r'\s+', '-', kind)[:50], libf[0])
                if key not in seen:
                    seen.add(key)
                    nlib += 1
                    res.violations.append(dict(prop=prop, key=key, case=-1, seed=seed, tier=tier, detail='memcheck: %s with library frame %s' % (kind, libf[0]), input='', stderr=e[:5000]))
            else:
                res.inconclusive = 'memcheck error without library frame (harness problem): %s' % e[:300]
        res.reports.append(dict(evaluations=0, cases_run=0, counters={'memcheck_error_blocks': len(errs), 'memcheck_errors_with_library_frames': nlib}, features={}, samples=[]))
        return res

    from concurrent.futures import ThreadPoolExecutor
    with ThreadPoolExecutor(max_workers=api.jobs()) as ex:
        return list(ex.map(one, range(nshards)))


# ---------------------------------------------------------------------------------------------- libFuzzer

def run_fuzz(prop, tier, seed, stage, workdir, api):
    """bounded libFuzzer session (-runs, never a time bound) with a deterministic seed; artifacts are re-run one process each
    to obtain the sanitizer key"""
    exe = build.build_driver(stage['flavour'], stage['driver'])
    res = api.ShardResult()
    corpus = os.path.join(workdir, 'corpus-' + stage['driver'])
    arts = os.path.join(workdir, 'artifacts-' + stage['driver'])
    os.makedirs(corpus, exist_ok=True)
    os.makedirs(arts, exist_ok=True)
    env = dict(os.environ)
    env['ASAN_OPTIONS'] = api.ASAN_OPTIONS + ':quarantine_size_mb=8'
    env['UBSAN_OPTIONS'] = api.UBSAN_OPTIONS
    # seed corpus written by the target itself
    subprocess.run([exe, '-runs=0'], env=dict(env, VF_WRITE_CORPUS=corpus), stdout=subprocess.DEVNULL, stderr=subprocess.DEVNULL, timeout=300)
    runs_total = stage.get('runs', {}).get(tier, 2000000)
    workers = min(api.jobs(), stage.get('workers', 16))
    per = max(1, runs_total // workers)
    procs = []
    t0 = time.time()
    for w in range(workers):
        log = open(os.path.join(workdir, 'fuzz-%s-%d.log' % (stage['driver'], w)), 'w')
        cmd = [exe, corpus, '-runs=%d' % per, '-seed=%d' % (seed * 1000 + w + 1), '-max_len=%d' % stage.get('max_len', 4096), '-artifact_prefix=' + arts + '/',
               '-print_final_stats=1', '-timeout=25', '-rss_limit_mb=4096', '-len_control=0'] + list(stage.get('args', []))
        procs.append((subprocess.Popen(cmd, env=env, stdout=log, stderr=subprocess.STDOUT), log))
    execs = 0
    timeout = stage.get('timeout', {}).get(tier, 4 * 3600)
    for p, log in procs:
        try:
            p.wait(timeout=max(1, timeout - (time.time() - t0)))
        except subprocess.TimeoutExpired:
            p.kill()
            res.inconclusive = 'libFuzzer worker exceeded its watchdog'
        log.close()
    cov = 0
    for w in range(workers):
        text = open(os.path.join(workdir, 'fuzz-%s-%d.log' % (stage['driver'], w)), errors='replace').read()
        m = re.search(r'stat::number_of_executed_units: (\d+)', text)
        if m:
            execs += int(m.group(1))
        for m in re.finditer(r'cov: (\d+)', text):
            cov = max(cov, int(m.group(1)))
    found = sorted(glob.glob(os.path.join(arts, '*')))
    keys = {}
    for a in found[:64]:
        p = subprocess.run([exe, a], env=env, capture_output=True, text=True, errors='replace')
        if p.returncode == 0:
            continue
        key = api.crash_key(p.stderr, p.returncode)
        if 'timeout' in os.path.basename(a) or 'libFuzzer: timeout' in p.stderr:
            key = 'hang:fuzz-input-does-not-terminate'
        if key not in keys:
            keys[key] = a
            data = open(a, 'rb').read()
            res.violations.append(dict(prop=prop, key=key, case=-1, seed=seed, tier=tier, detail='libFuzzer artifact %s reproduces' % os.path.basename(a),
                                       input='fuzz input (hex)=' + data.hex()[:8000], stderr=p.stderr[-6000:]))
    corpus_n = len(os.listdir(corpus))
    sigs = set()
    for f in os.listdir(corpus):
        sigs.add(int(hashlib.sha256(f.encode()).hexdigest()[:15], 16))
    res.sigs = sigs
    res.reports.append(dict(evaluations=execs, cases_run=execs,
                            counters={'fuzz_executions': execs, 'fuzz_edge_coverage': cov, 'fuzz_corpus_units': corpus_n, 'fuzz_artifacts': len(found), 'fuzz_workers': workers},
                            features={}, samples=['libFuzzer %s: %d executions, corpus %d units, cov %d' % (stage['driver'], execs, corpus_n, cov)]))
    shutil.rmtree(corpus, ignore_errors=True)
    return [res]


RUNNERS = {'tsan': run_tsan, 'helgrind': run_helgrind, 'memcheck': run_memcheck, 'fuzz': run_fuzz}
