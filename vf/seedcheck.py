#!/usr/bin/env python3
"""Development tooling: confirm a seeded change produced by an independent sub-agent and run the checks against it.

usage: seedcheck.py <src-dir-with-patch.diff+demo.cpp+README.txt> <seed-id> <property> [more properties to run]

1. fresh scratch worktree of /repo HEAD (outside /repo and /verif): build the repository tests and the demo on the
   unmodified tree (demo must pass), apply the patch, rebuild, run the repository tests (must pass), run the demo
   (must fail);
2. store patch.diff, demo.cpp, README.txt and meta.json under /verif/seeded/<seed-id>/;
3. apply the patch to /repo itself, run the quick checks of the listed properties, and undo it straight afterwards.
"""
import json
import os
import shutil
import subprocess
import sys
import tempfile
import time

VERIF = os.path.dirname(os.path.dirname(os.path.abspath(__file__)))


def sh(cmd, **kw):
    return subprocess.run(cmd, shell=isinstance(cmd, str), capture_output=True, text=True, errors='replace', **kw)


def main():
    src, sid, props = os.path.abspath(sys.argv[1]), sys.argv[2], sys.argv[3:]
    patch = os.path.join(src, 'patch.diff')
    demo = os.path.join(src, 'demo.cpp')
    extra_flags = '-DASAM_CMP_VERIF' if 'ASAM_CMP_VERIF' in open(demo).read() or 'verifPending' in open(demo).read() else ''
    wt = tempfile.mkdtemp(prefix='vfseed-', dir='/tmp')
    os.rmdir(wt)
    assert sh(['git', '-C', '/repo', 'worktree', 'add', '-q', '--detach', wt, 'HEAD']).returncode == 0
    meta = dict(id=sid, breaks=props[0], also_run=props[1:], confirmed=time.strftime('%F %T'), ran=[])
    ok = True
    try:
        def build():
            r = sh('cmake -G Ninja -S %s -B %s/_build -DCMAKE_BUILD_TYPE=RelWithDebInfo >/dev/null 2>&1 && cmake --build %s/_build 2>&1 | tail -3' % (wt, wt, wt))
            return r.stdout

        def tests():
            r = sh('%s/_build/bin/test_asam_cmp | tail -2' % wt)
            return 'PASSED' in r.stdout and 'FAILED' not in r.stdout, r.stdout.strip()

        def rundemo():
            exe = os.path.join(wt, 'demo_bin')
            r = sh('g++ -std=c++17 -O1 -g %s -pthread -I%s/include %s %s/_build/bin/libasam_cmp.a -o %s' % (extra_flags, wt, demo, wt, exe))
            if r.returncode != 0:
                return None, 'demo does not compile: ' + r.stderr[-500:]
            try:
                r = sh([exe], timeout=600)
            except subprocess.TimeoutExpired:
                return False, 'timeout'
            return r.returncode == 0, (r.stdout + r.stderr)[-400:].strip()

        build()
        t_ok, t_out = tests()
        d_ok, d_out = rundemo()
        meta['ran'].append(dict(step='unmodified tree', tests_pass=t_ok, demo_passes=d_ok, demo_output=d_out))
        if not t_ok or not d_ok:
            ok = False
        r = sh(['git', '-C', wt, 'apply', '--whitespace=nowarn', patch])
        if r.returncode != 0:
            meta['ran'].append(dict(step='apply', error=r.stderr[-300:]))
            ok = False
        else:
            b = build()
            t_ok, t_out = tests()
            d_ok, d_out = rundemo()
            meta['ran'].append(dict(step='with the change', build_tail=b[-200:], tests_pass=t_ok, tests_output=t_out, demo_passes=d_ok, demo_output=d_out))
            if not t_ok or d_ok is not False:
                ok = False
    finally:
        sh(['git', '-C', '/repo', 'worktree', 'remove', '--force', wt])
        shutil.rmtree(wt, ignore_errors=True)
    meta['confirmed_compiles_tests_pass_demo_fails_with_and_passes_without'] = ok
    print(json.dumps(meta['ran'], indent=1)[:3000])
    if not ok:
        print('NOT CONFIRMED - not stored')
        return 1
    dst = os.path.join(VERIF, 'seeded', sid)
    os.makedirs(dst, exist_ok=True)
    same = os.path.realpath(src) == os.path.realpath(dst)
    if not same:
        shutil.copy(patch, os.path.join(dst, 'patch.diff'))
        shutil.copy(demo, os.path.join(dst, 'demo.cpp'))
    if os.path.exists(os.path.join(src, 'README.txt')):
        if not same:
            shutil.copy(os.path.join(src, 'README.txt'), os.path.join(dst, 'README.txt'))
        meta['needs_to_manifest'] = open(os.path.join(src, 'README.txt')).read()[:3000]
    if os.environ.get('SEEDCHECK_SCRATCH') == '1':
        # batch re-verification mode: run the checks against a scratch worktree (VERIF_REPO) so that /repo stays untouched and
        # other checks can run at the same time
        wt2 = tempfile.mkdtemp(prefix='vfseedrun-', dir='/tmp')
        os.rmdir(wt2)
        assert sh(['git', '-C', '/repo', 'worktree', 'add', '-q', '--detach', wt2, 'HEAD']).returncode == 0
        results = {}
        try:
            assert sh(['git', '-C', wt2, 'apply', '--whitespace=nowarn', patch]).returncode == 0
            for p in props:
                t0 = time.time()
                r = sh([sys.executable, os.path.join(VERIF, 'vf', 'check.py'), p, '--tier', 'quick'], env=dict(os.environ, VERIF_NO_EVIDENCE='1', VERIF_REPO=wt2))
                keys = sorted({l.split()[1].replace('key=', '') for l in r.stdout.splitlines() if l.startswith('violation key=')})
                results[p] = dict(exit=r.returncode, caught=(r.returncode == 1), keys=keys[:12], wall_s=round(time.time() - t0, 1))
                print('%s: %s exit=%d keys=%s' % (p, 'CAUGHT' if r.returncode == 1 else 'MISSED', r.returncode, ', '.join(keys)[:300]))
        finally:
            sh(['git', '-C', '/repo', 'worktree', 'remove', '--force', wt2])
            shutil.rmtree(wt2, ignore_errors=True)
        meta['checks_quick'] = results
        meta['repo_head'] = sh(['git', '-C', '/repo', 'rev-parse', '--short', 'HEAD']).stdout.strip()
        json.dump(meta, open(os.path.join(dst, 'meta.json'), 'w'), indent=1)
        return 0
    # run the checks against /repo with the patch applied, undo straight afterwards
    st = sh(['git', '-C', '/repo', 'status', '--porcelain'])
    if st.stdout.strip():
        print('/repo is not clean, not applying')
        return 2
    results = {}
    try:
        assert sh(['git', '-C', '/repo', 'apply', '--whitespace=nowarn', patch]).returncode == 0
        for p in props:
            t0 = time.time()
            r = sh([sys.executable, os.path.join(VERIF, 'vf', 'check.py'), p, '--tier', 'quick'], env=dict(os.environ, VERIF_NO_EVIDENCE='1'))
            keys = sorted({l.split()[1].replace('key=', '') for l in r.stdout.splitlines() if l.startswith('violation key=')})
            results[p] = dict(exit=r.returncode, caught=(r.returncode == 1), keys=keys[:12], wall_s=round(time.time() - t0, 1))
            print('%s: %s exit=%d keys=%s' % (p, 'CAUGHT' if r.returncode == 1 else 'MISSED', r.returncode, ', '.join(keys)[:300]))
    finally:
        sh(['git', '-C', '/repo', 'checkout', '--', '.'])
    meta['checks_quick'] = results
    json.dump(meta, open(os.path.join(dst, 'meta.json'), 'w'), indent=1)
    return 0


if __name__ == '__main__':
    sys.exit(main())
