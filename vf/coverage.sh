#!/bin/sh
# Development tooling (not a registered check): which lines of the library do the quick workloads execute?
# Builds the library and the drivers with gcov instrumentation in a scratch directory outside /repo and /verif,
# runs every property's quick workload (16 shards each), prints per-file line coverage and writes the never
# executed lines of src/ and include/ to $OUT/unexecuted.txt. The scratch directory is removed afterwards
# unless KEEP=1. usage: vf/coverage.sh [outdir]
set -e
VERIF=$(cd "$(dirname "$0")/.." && pwd)
REPO=${VERIF_REPO:-/repo}
OUT=${1:-/tmp/vfcov-out}
W=$(mktemp -d /tmp/vfcov-XXXXXX)
mkdir -p "$OUT" "$W/lib" "$W/run"
FLAGS="-std=c++17 -g -O0 --coverage -DASAM_CMP_VERIF -I$REPO/include"
for s in "$REPO"/src/*.cpp; do
    echo "g++ $FLAGS -c $s -o $W/lib/$(basename "$s" .cpp).o"
done | xargs -P 16 -I{} sh -c '{}'
for d in drv_codec drv_decode drv_memsafe drv_fields drv_tecmp drv_status drv_uninit drv_alloc; do
    echo "g++ $FLAGS -I$VERIF/harness/common -pthread $VERIF/harness/$d.cpp $W/lib/*.o -rdynamic -ldl -o $W/$d"
done | xargs -P 8 -I{} sh -c '{}'
g++ $FLAGS -I"$VERIF/harness/common" -pthread "$VERIF/harness/drv_threads.cpp" "$W"/lib/*.o -o "$W/drv_threads"
run() { # driver prop
    for sh in 0 1 2 3 4 5 6 7 8 9 10 11 12 13 14 15; do
        echo "$W/$1 --prop $2 --tier quick --seed 1 --shard $sh --nshards 16 --out $W/run/$2-$sh >/dev/null 2>&1 || true"
    done | xargs -P 16 -I{} sh -c '{}'
    echo "ran $2"
}
for p in C01 C07 C08 C09 C10; do run drv_codec $p; done
for p in C04 C05 C06 C17 C18; do run drv_decode $p; done
for p in C02 C03; do run drv_memsafe $p; done
for p in C11 C12 C13 C14; do run drv_fields $p; done
run drv_tecmp C15
run drv_status C16
run drv_uninit C20
run drv_alloc C17
VF_ROUNDS=4 "$W/drv_threads" --prop C19 --tier quick --seed 1 --shard 0 --nshards 1 --out "$W/run/C19" >/dev/null 2>&1 || true
cd "$W/lib"
: > "$OUT/unexecuted.txt"
for s in "$REPO"/src/*.cpp; do
    gcov -b -c -o "$W/lib" "$s" >/dev/null 2>&1 || true
done
# headers: take the union over the library objects and the driver objects
for g in "$W"/lib/*.gcov; do
    src=$(sed -n '1s/.*Source://p' "$g")
    case "$src" in
        "$REPO"/src/*|"$REPO"/include/*) ;;
        *) continue ;;
    esac
    tot=$(grep -cE '^ *([0-9]+\*?|#####):' "$g" || true)
    miss=$(grep -cE '^ *#####:' "$g" || true)
    echo "$(basename "$src") lines=$tot unexecuted=$miss"
    grep -E '^ *#####:' "$g" | sed "s|^|$(basename "$src"): |" >> "$OUT/unexecuted.txt" || true
done | sort -u
echo "unexecuted lines listed in $OUT/unexecuted.txt"
cd /
[ "$KEEP" = 1 ] || rm -rf "$W"
