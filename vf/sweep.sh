#!/bin/sh
# Development helper: run every registered check for one tier and several seeds; prints one line per run and
# any VIOLATION / INCONCLUSIVE line. usage: sweep.sh <tier> <seed> [<seed>...]   (VERIF_REPO honoured)
tier=$1; shift
cd "$(dirname "$0")/.."
for seed in "$@"; do
  for p in C01 C02 C03 C04 C05 C06 C07 C08 C09 C10 C11 C12 C13 C14 C15 C16 C17 C18 C19 C20; do
    VERIF_SEED=$seed VERIF_NO_EVIDENCE=${VERIF_NO_EVIDENCE:-1} python3 vf/check.py $p --tier $tier | grep -E "verdict=|VIOLATION|INCONCLUSIVE|KNOWN-FINDING|violation key"
  done
done
