"""Per-property configuration of the orchestrator: which driver/flavour stages decide it, the
non-triviality rule reported in the evidence, the assumptions, and the coverage floors."""

COMMON_ASSUME = [
    'g++ 12 AddressSanitizer/UBSan (vptr, alignment, nonnull-attribute checks off, see DESIGN.md 3.2) report every '
    'violation they are designed to detect in executed code',
    'the hand-written big-endian wire model in harness/common/wire.h transcribes the ASAM CMP layout correctly '
    '(corroborated by the captured frames in the repository tests)',
    'exploration, not proof: the verdict covers the executions listed under coverage only',
]

CODEC_RULE = ('cases = deterministic sweeps (every single-packet case max in [25,96] x len in [1,3*max]; two-packet lattice for max in '
              '{25,26,40,41,64,100}; min sweeps; one aggregated and one segmented batch per payload kind; mixed-type batches; 65535-byte payloads) '
              '+ seeded random batches whose lengths are drawn around the fit/no-fit boundaries of the running reference layout '
              '+ encoder histories. A batch is non-trivial iff it produced >= 2 messages in one frame or >= 1 segmented packet; '
              'distinct = distinct hash of (max, min class, per packet (kind, length - nearest multiple of the frame capacity clipped to +-3, '
              'multiple, segmented?)).')


def codec_stage():
    return dict(driver='drv_codec', flavour='asan')


PROPS = {
    'C01': dict(
        technique='ASan+UBSan run of encode->decode on generated batches with snapshot round-trip oracle and independent wire-level frame walker',
        level_text='Exploration: every generated batch (boundary sweeps + seeded random, all payload kinds, all encode overloads, 25 <= max <= 65559) is encoded by the real Encoder and decoded by the real Decoder under ASan/UBSan; decoded packets are compared field by field with the originals and the frames are also parsed by an independent big-endian walker so that errors cancelling between encoder and decoder stay visible. Later additions: top of the legal ranges (max 65536..65559 x payload 65500..65535, big packet followed by a tiny one), frames holding 254..2049 tiny messages followed by a packet that does not fit, batches of 256..4117 packets, packets re-typed in place / edited in place through getPayload() / handed over as copies, decoders with a reassembly open on the very endpoint. Right level: the property is a universally quantified input/output relation of pure, microsecond-fast code, so dense boundary-directed sampling with an exact oracle is what runtime monitoring can give. Later families: one round trip in four copies the decoder between two frames and feeds the copy first (both owe the same packets); one history in four keeps the caller\'s packet objects across encode calls and edits them in place (header setters, Ethernet data through an earlier Payload reference). Round 7: frame sizes above 64 KiB up to 1 000 000 (C01 states no upper bound on the maximum): the largest payload followed by small ones, message headers straddling and starting exactly at frame offsets 65536 / 131072, three 65535-byte payloads in one frame, 4500 tiny packets; kept packet objects whose payload is replaced or re-typed through an earlier Payload reference between two encodes, with no Packet member called. Round 8: a segmented packet whose first segment carries sequence counter 65533 .. 1; a fixed set of batches also encoded and decoded during static initialisation (forked child) and after main() returned; encode calls cut short by std::bad_alloc at every allocation in turn (all overloads) before the judged call.',
        level_note='Trusted: wire model (harness/common/wire.h), snapshot of public getters, g++ sanitizers. Not covered: inputs outside the generated shapes; nothing is proved.',
        stages=[codec_stage()],
        rule=CODEC_RULE,
        assumptions=COMMON_ASSUME + ['the original packet is observed through its getters before encoding; decoded packets through snapshot.h'],
        floors=dict(quick=dict(segmented_packets_starting_at_counters_around_the_wrap=10, encode_calls_left_by_allocation_failure=150, frame_sizes_above_64KiB_cases=96, kept_packets_whose_payload_was_replaced_or_retyped_through_an_earlier_reference=500, distinct_nontrivial=2000, segment_messages=10000, padded_frames=100, roundtrip_with_decoder_history=100),
                    thorough=dict(distinct_nontrivial=20000, segment_messages=100000)),
    ),
    'C07': dict(
        technique='ASan+UBSan run of Encoder::encode with an independent frame walker and exactly-once byte conservation monitor',
        level_text='Exploration: every frame returned for generated batches/configurations is parsed by a walker that shares no code with the library (size bounds, >= 1 complete message, exact tiling, zero padding only up to min, padding only when needed) and every payload byte is matched exactly once and in order against the packets; empty batches on fresh and used encoders are included; sanitizers watch for crashes. One history in four keeps the caller\'s packet objects across encode calls and edits them in place (header setters; Ethernet data through a Payload reference obtained earlier, half of the time with no other call in between); histories continue on copies of the encoder with the original kept alive or destroyed. Round 8: encode calls during which an allocation fails: calls that throw are followed by ordinary calls, calls that return normally although an allocation failed owe a well-formed result; first segments at counters around the wrap; probe outside main().',
        level_note='Trusted: wire model and walker; domain packets have a non-zero payload type byte (how padding is recognised).',
        stages=[codec_stage()],
        rule=CODEC_RULE,
        assumptions=COMMON_ASSUME + ['all domain packets carry a non-zero payload-type byte, which is how the independent walker tells a message from padding'],
        floors=dict(quick=dict(segmented_packets_starting_at_counters_around_the_wrap=10, encode_calls_left_by_allocation_failure=150, distinct_nontrivial=2000, padded_frames=100, empty_batches=4, top_of_range_cases=1728),
                    thorough=dict(distinct_nontrivial=20000, padded_frames=1000, empty_batches=4)),
    ),
    'C08': dict(
        technique='ASan+UBSan run of Encoder::encode; observed frame layout compared with an executable reference model of the segmentation/aggregation rules',
        level_text='Exploration: the layout observed on the wire (which packet, which segment flag, offset, length, per frame) must equal the layout computed by a 60-line reference model written from the rule text, for dense sweeps around every fit/no-fit boundary and seeded random batches; rule-specific keys name the first broken rule. One history in four keeps the caller\'s packet objects across encode calls and edits them in place; histories continue on copies of the encoder with the original kept alive or destroyed. Round 8: allocation failures inside earlier encode calls, first segments at counters around the wrap, probe outside main().',
        level_note='Trusted: ref_encoder.h implements exactly the rules of the statement (they determine the layout uniquely); wire walker.',
        stages=[codec_stage()],
        rule=CODEC_RULE + ' Extra counters fit_boundary_*[d] give how often a packet length was exactly d bytes from a fit/no-fit boundary.',
        assumptions=COMMON_ASSUME + ['the rules of the statement determine the layout uniquely; harness/common/ref_encoder.h implements exactly those rules'],
        floors=dict(quick={'segmented_packets_starting_at_counters_around_the_wrap': 10, 'encode_calls_left_by_allocation_failure': 150, 'distinct_nontrivial': 2000, 'fit_boundary_fresh_frame[0]': 100, 'fit_boundary_fresh_frame[1]': 100, 'fit_boundary_fresh_frame[-1]': 100,
                           'fit_boundary_remaining_space[0]': 50, 'fit_boundary_remaining_space[1]': 50, 'fit_boundary_remaining_space[-1]': 50,
                           'type_change_inside_batch': 500, 'message_count_boundary_cases': 102},
                    thorough={'distinct_nontrivial': 20000, 'fit_boundary_remaining_space[0]': 1000, 'fit_boundary_remaining_space[1]': 1000}),
    ),
    'C09': dict(
        technique='ASan+UBSan run of encoder histories with a shadow-state monitor over frame headers (identity, version, type, consecutive 16-bit counter, resets)',
        level_text='Exploration: histories of setDeviceId/setStreamId/restart/encode on one encoder, including deterministic histories emitting > 140000 frames (two wraps) and resets placed at counters 65535/0/1, are monitored frame by frame against a shadow state; getSequenceCounter() is compared with the last emitted frame after every call. Histories also contain packets with empty payloads (C09 does not restrict lengths), calls left by an exception, and continue on copies of the encoder while the original stays alive or is destroyed. One batch in eight is encoded through an iterator whose dereference runs another encoder to completion (nested encode calls on one thread). Round 8: encode calls cut short by an allocation failure (every allocation in turn, all overloads) inside the histories; probe outside main().',
        level_note='Trusted: shadow model (reset to 0 on set*/restart, +1 mod 65536 per frame). The value reported between a reset and the next frame is unspecified and unchecked.',
        stages=[codec_stage()],
        rule=('cases = encoder histories of {setDeviceId, setStreamId, restart, encode(batch, ctx)}: deterministic ones that emit > 140000 frames on one '
              'encoder (two counter wraps) and place resets at counter 65535 / 0 / 1, all ordered pairs of 12 canonical batch shapes, and seeded random '
              'histories; plus single-call batches. A history is non-trivial iff it has >= 2 encode calls, >= 2 frames and at least one reset or wrap; '
              'distinct = distinct hash of the op sequence with batch shape signatures.'),
        assumptions=COMMON_ASSUME + ['the counter reported between a reset and the next emitted frame is not specified by the property and not checked'],
        floors=dict(quick=dict(distinct_nontrivial=100, counter_wraps=3, histories=300), thorough=dict(distinct_nontrivial=5000, counter_wraps=3)),
    ),
    'C10': dict(
        technique='ASan+UBSan differential monitor: n-th encode call on a used encoder versus a fresh encoder for the same batch, after every call of generated histories',
        level_text='Exploration: after every encode call of every generated history (mixed contexts, message types, batches ending with segmented packets, empty batches, config changes) (histories also contain calls that leave encode() by an exception - a failing input iterator, an unallocatable maximum - and continuations on copies of the encoder) the frames are compared with those of a fresh encoder with the same ids: same count, identical bytes outside the counter, constant counter offset; sanitizers and the signal/abort path catch crashes caused by leftover state. One history in four keeps the caller\'s packet objects (same addresses) across calls and edits them in place, so that anything the encoder remembers about a packet object is compared with a fresh encoder fed fresh objects. Round 7: kept packet objects whose payload is replaced or re-typed between two encodes through the Payload reference obtained before the first one (no Packet member called). Round 8: every allocation of an earlier encode call fails in turn (std::bad_alloc; single-packet, vector and shared_ptr overloads), then the judged call must equal a fresh encoder\'s output; probe outside main().',
        level_note='Trusted: the fresh encoder run is itself checked by the C07/C08 oracles in the same execution.',
        stages=[codec_stage()],
        rule=('cases = encoder histories; after EVERY encode call the frames are compared with those of a fresh encoder (same ids) for the same batch: equal '
              'count, equal bytes outside the counter field, constant counter offset. A comparison is non-trivial iff it is not the first call of its '
              'history; distinct = distinct hash of (last message type of the previous call, first type of this call, previous call ended with a '
              'segmented packet?, this call needs segmentation?, batch shape signature).'),
        assumptions=COMMON_ASSUME,
        floors=dict(quick={'encode_calls_left_by_allocation_failure': 300, 'kept_packets_whose_payload_was_replaced_or_retyped_through_an_earlier_reference': 2000, 'distinct_nontrivial': 1000, 'feat:c10_transition': 12, 'encode_calls_left_by_exception': 500}, thorough={'distinct_nontrivial': 20000, 'feat:c10_transition': 16}),
    ),

    'C04': dict(
        technique='ASan+UBSan run of Decoder::decode on wire-model frames; every returned packet compared with an independent big-endian parse (fields, validity class, truncation prefix, zero padding)',
        level_text='Exploration: frames are laid out by an independent wire model (all payload kinds, consistent / deliberately inconsistent / bus-error payloads, 0..6 messages, every version, message type and payload type byte), decoded on decoders with prior history (open reassemblies on the same endpoint) and each packet is compared field by field with an independent parse; every cut point of the canonical frames and zero paddings of several lengths are enumerated. Validity is demanded only where the statement fixes it (three-valued expectation). One random case in six adds a frame that is well-formed under both the CMP and the TECMP layout (non-zero first byte): the independent CMP parse decides. A fixed set of 150 frames is additionally decoded during static initialisation, inside main() and in an atexit handler; the three answers must agree. Round 8: decoders that hold 1100, 4200 and 70 000 unfinished reassemblies while frames of every kind arrive from other and from the same endpoints.',
        level_note='Trusted: wire model offsets (C12 layout table), expectValidity() classification in framegen.h; messages with error-in-payload or payload type 0 and message type 0 validity are outside the oracle.',
        stages=[dict(driver='drv_decode', flavour='asan')],
        rule=('cases = per payload kind x k in {0,1,2,5} messages: whole frame + EVERY cut point + zero paddings {1,15,16,17,64}; sweeps of all versions / message types / payload types; '
              '300 inconsistent or bus-error variants per typed kind placed between valid messages; seeded random frames (0..6 messages, 15% inconsistent, 15% bus error) each also cut, padded and repeated. '
              'Non-trivial = a decode that returned >= 1 packet; distinct = distinct hash of (message type, per message (kind, class), variant, validity pattern, packet count).'),
        assumptions=COMMON_ASSUME,
        floors=dict(quick={'decoders_holding_70000_unfinished_reassemblies': 1, 'decoders_holding_thousands_of_unfinished_reassemblies': 2, 'distinct_nontrivial': 5000, 'cut_points': 3000, 'messages_expected_invalid': 5000, 'feat:c04_kinds': 12, 'feat:c04_invalid_kinds': 7, 'feat:c04_inner_length_kinds': 7, 'inner_length_field_values': 5000, 'frames_longer_than_64KiB': 288},
                    thorough={'distinct_nontrivial': 50000, 'cut_points': 3000, 'feat:c04_kinds': 12}),
    ),
    'C05': dict(
        technique='ASan+UBSan run of multi-endpoint interleaved segment streams; per-call delivery oracle computed from the generation script (exactly-once, at the last segment, content by unique ids)',
        level_text='Exploration: 1..4 endpoint streams of well-formed segmented (2..12 segments, sizes 0..max, unequal) and unsegmented messages with unique content are merged (all 20 merges x 36 starting-counter pairs exhaustively, bursty random merges otherwise), starting counters include 65533..65535, distinctive non-zero trailing bytes follow segments; deterministic extremes: reassembled totals 65519..65535, messages in 300 / 5000 / 65535 segments, 257 / 300 / 700 endpoints mid-message at once, 70 000 / 140 000 foreign frames between two segments, decoder continued on copies of itself; after EVERY decode call the delivered packets must be exactly the messages that complete at that frame, with the first segment\'s header fields. One message in five carries behind every segment a train of well-formed look-alike messages at a stride that matches its segment sizes; a copy of the decoder taken mid-history is fed the same frames next to the original and must deliver the same packets. Deterministic histories with one huge last / middle segment followed by trailing bytes such that declared length + trailing bytes pass 65536. Round 7: one history with 70 000 endpoints mid-message at the same moment (device ids spread over the id space). Round 8: one message kept open while 4.6 million frames of other endpoints pass (more than 2^22).',
        level_note='Trusted: generation script bookkeeping; wire model. Reassembled totals > 65535 bytes are outside the domain.',
        stages=[dict(driver='drv_decode', flavour='asan')],
        rule=('cases = interleaved multi-endpoint histories; every decode call is one evaluation. A history is non-trivial iff >= 2 reassemblies were open simultaneously; '
              'distinct = distinct hash of the interleaving (endpoint order + completions per frame). Extra counters: wrap_crossings, trailing_byte_cases, zero_length_segments.'),
        assumptions=COMMON_ASSUME,
        floors=dict(quick=dict(histories_with_more_than_2_to_the_22_frames_while_a_message_is_open=1, histories_with_70000_endpoints_mid_message=1, distinct_nontrivial=2000, wrap_crossings=100, trailing_byte_cases=1000, zero_length_segments=1000, exhaustive_merges=720, reassembled_totals_at_top_of_range=24, trailing_trains_of_look_alike_messages=1000),
                    thorough=dict(distinct_nontrivial=50000, wrap_crossings=1000, exhaustive_merges=720)),
    ),
    'C06': dict(
        technique='ASan+UBSan run of faulted encoder-like streams (drop/dup/swap/corrupt-version/corrupt-type); model-free integrity oracle via unique ids in the content plus recovery oracle',
        level_text='Fault enumeration by execution: all single faults and all ordered pairs of faults on 16 canonical streams, seeded random 1..6-fault sequences on streams of 6..60 frames over 1..3 endpoints, and burst losses / displacements of 2..1100 frames (incl. 255/256/257, 511/512/513, 768, 1024) on streams of 300..1400 frames; every delivered packet must be byte-identical to exactly one sent message (found through the id embedded in its content) and every message whose frames arrive complete, in order and uninterrupted on its endpoint must be delivered at its last frame. One unsegmented message in twelve is one the decoder treats as invalid (error flag, payload type 0); a copy of the decoder taken mid-stream is fed the same frames next to the original and must deliver the same packets. Round 8: new fault kind: the decode call for a frame is cut short by std::bad_alloc (exhaustively: every frame position x every allocation of that call on the 16 canonical streams, with and without the frame offered again; randomly elsewhere); crowds of 70 .. 5000 endpoints with unfinished messages while a victim endpoint sends complete messages whose segments are 300 .. 5000 foreign frames apart.',
        level_note='Trusted: the fault applicator and the bookkeeping of which sent message each frame carries. Duplicate delivery of duplicated frames is not forbidden by the statement and not flagged.',
        stages=[dict(driver='drv_decode', flavour='asan')],
        rule=('cases = (stream, fault sequence); non-trivial iff at least one fault hit a frame of a segmented message; distinct = distinct hash of the sequence of (fault kind, role of the hit frame in its message: unsegmented/first/middle/last) x stream id.'),
        assumptions=COMMON_ASSUME,
        floors=dict(quick={'crowd_histories': 16, 'exhaustive_allocation_failure_points': 3000, 'distinct_nontrivial': 1000, 'exhaustive_fault_pairs': 57600, 'recovered_segmented_deliveries': 10000, 'feat:c06_fault_kinds': 5, 'burst_or_displacement_cases': 1000, 'feat:c06_burst_lengths': 20},
                    thorough={'distinct_nontrivial': 5000, 'exhaustive_fault_pairs': 57600}),
    ),
    'C17': dict(
        technique='ASan+UBSan+LeakSanitizer run with an invariant hook on the decoder (pending reassemblies, guarded by ASAM_CMP_VERIF) compared with a reference reassembly model after every decode call',
        level_text='Exploration with an exhaustive core: after EVERY decode call the hooked list of (device, stream, buffered bytes) must equal the set of endpoints the reference model holds open, with buffered bytes <= received segment bytes; all 59049 words of length 5 over a 9-letter frame alphabet (first/mid/last/unsegmented/invalid/wrong-version/wrong-counter/TECMP/runt) on one endpoint (all words of length 4 over two endpoints in thorough) and seeded random multi-endpoint histories. The invalid-message letter takes four forms (error flag, payload type 0, overrunning length, padding-only frame of 1..56 zero bytes); the TECMP letter includes truncated look-alikes (first byte 0, 8..27 bytes) that name the endpoint itself. Round 7: one history with 70 000 endpoints open at once (pending list walked every 4999th frame and at the turning points). Round 8: frame header values vary (message types 0 and 0xFF, versions 1/2/255, starting counters 0, 1, 2); 300 MB (quick) / 1.2 GB (thorough) of superseded 60 000-byte reassemblies on one decoder.',
        level_note='Trusted: ref_decoder.h (validated on > 1 M frames, see DESIGN.md 7), the hook (read-only, inline). Restricted to frame shapes on which the reassembly rules are unambiguous.',
        stages=[dict(driver='drv_decode', flavour='asan'),
                dict(driver='drv_alloc', flavour='plain0')],
        rule=('cases = frame histories; every decode call is one evaluation (one comparison of the hooked pending list with the model); the second stage (drv_alloc, counting operator new/delete, no hook) adds release-after-destruction histories and long growth runs over ever-new endpoints. distinct_nontrivial = distinct (pending-state signature = sorted (endpoint, segments received) of the open messages, last frame letter) pairs observed.'),
        assumptions=COMMON_ASSUME,
        floors=dict(quick=dict(megabytes_of_superseded_reassemblies=300, histories_with_70000_open_endpoints=1, distinct_nontrivial=5000, exhaustive_words_len5_one_endpoint=59049, quiescent_points=10000, growth_runs=16, release_histories=2000),
                    thorough=dict(distinct_nontrivial=50000, exhaustive_words_len5_one_endpoint=59049, exhaustive_words_len4_two_endpoints=104976)),
        coverage_static=dict(quick=dict(exhaustive_subspaces=['all 9^5 frame-letter words on one endpoint']),
                             thorough=dict(exhaustive_subspaces=['all 9^5 frame-letter words on one endpoint', 'all 18^4 words over two endpoints'])),
    ),
    'C18': dict(
        technique='ASan+UBSan metamorphic monitor: one decoder fed the whole history versus fresh decoders fed each endpoint\'s projection, compared packet by packet',
        level_text='Exploration: histories over 2..5 endpoints from a small id alphabet, dense in segment traffic, with 25% structurally mutated frames, TECMP frames, runts and re-addressed copies sprinkled in; all 20 merges of two 3-frame scripts for 400 script/endpoint-pair combinations are enumerated. For every endpoint the snapshot sequence from the mixed run must equal the run on its projection. Hostile frames include truncated TECMP look-alikes (first byte 0, 8..27 bytes) that would name a live endpoint if misread as CMP; endpoint sets include pairs whose decimal digit strings coincide. Round 7: three histories with 1100, 4200 and 70 000 endpoints mid-message at the same moment, finished or aborted in another order and compared with as many single-endpoint decoders. Round 8: in the mass histories aborted endpoints later receive stray continuation / last segments, half of them carrying exactly the counter a reassembly that wrongly survived the abort is waiting for.',
        level_note='Trusted: attribution of a frame to an endpoint by its header bytes (independent parse). Needs no reference decision on malformed frames.',
        stages=[dict(driver='drv_decode', flavour='asan')],
        rule=('cases = histories; non-trivial iff >= 2 endpoints had an open reassembly at the same time (a foreign frame arrived in between); distinct = distinct hash of the interleaving incl. mutation kinds.'),
        assumptions=COMMON_ASSUME,
        floors=dict(quick=dict(histories_with_70000_endpoints_open_at_once=1, histories_with_thousands_of_endpoints_open_at_once=2, distinct_nontrivial=2000, exhaustive_merges=8000, projections_compared=20000, histories_with_a_gap_of_more_than_65536_foreign_frames=6),
                    thorough=dict(distinct_nontrivial=50000, exhaustive_merges=8000)),
    ),

    'C02': dict(
        technique='ASan (vector annotations) + UBSan + LeakSanitizer on Decoder::decode over mutated frame histories, inputs in read-only guard-paged mappings, ownership snapshots re-read after input and decoder are released; libFuzzer in the thorough tier',
        level_text='Exploration: histories of hostile byte strings (every truncation of ~55 canonical CMP/TECMP frames, every byte / 16-bit field of their first 96 bytes set to 17 hostile values, all 256 TECMP message types x 11 data types x sizes 28..52, structurally mutated generated frames, random bytes up to 64 KiB) are decoded on one decoder per history; inputs end at a PROT_NONE page and are read-only (an over-read or any write faults), every 4th input sits in an exact-size heap block (red zones); further families: reassemblies whose segment totals cross 65535, typed payloads at their structural boundaries as the last message of a frame that ends exactly with the payload, the product version x message type x counter x payload length x segment kind on decoders with and without state, frames longer than 64 KiB, null / empty inputs; each returned packet is checked (non-null, payload object, <= 1 per 12 bytes), fully read, and re-read after the input is unmapped, more frames decoded and the decoder destroyed. Round 8: decode calls cut short by std::bad_alloc at every allocation in turn (frame optionally offered again) inside histories; every canonical frame, TECMP too, also decoded during static initialisation in a forked child with an alarm (a hang or crash there is a verdict) and after main() returned; 70 000 .. 300 000 foreign decode calls between two segments of one message.',
        level_note='Trusted: ASan/UBSan/LSan and the MMU. Red zones miss far overflows inside other live blocks; guard pages cover the input side exactly. Termination is observed (watchdog), not proved.',
        stages=[dict(driver='drv_memsafe', flavour='asan'),
                dict(driver='fuzz_decode', flavour='fuzz', runner='fuzz', tiers=('thorough',), runs=dict(thorough=8000000), max_len=4096)],
        rule=('cases = deterministic canonical-frame mutations + TECMP sweep + seeded random histories of 1..40 frames; every decode call is one evaluation. distinct_nontrivial = distinct (frame family + mutation kinds, packets accepted (0,1,2,3+)) pairs and (family, mutated field) pairs.'),
        assumptions=COMMON_ASSUME,
        floors=dict(quick={'histories_with_more_than_65536_calls_between_two_segments': 3, 'allocation_failure_histories': 1000, 'distinct_nontrivial': 3000, 'inputs_guard_paged_readonly': 50000, 'ownership_rechecks': 20000, 'tecmp_message_types_swept': 256, 'reassembly_totals_beyond_65535': 24, 'typed_boundary_cases': 112, 'segment_header_product_cases': 45, 'feat:c02_family_truncated': 49, 'feat:c02_family_field_mutated': 49},
                    thorough={'distinct_nontrivial': 5000, 'tecmp_message_types_swept': 256}),
    ),
    'C03': dict(
        technique='ASan (vector annotations) + UBSan on validators, constructors and every const accessor, plus an explicit pointer-range oracle on every reported view; three paths (class validator, decoder, message-level validator)',
        level_text='Exploration: for each typed class, every buffer length 0..header+8 (and larger), every inner length field swept (8-bit fields exhaustively, 16-bit fields on a lattice in quick / exhaustively in thorough) on zero / ones / random backgrounds, every truncation of consistent payloads, and seeded semi-valid random buffers; accepted buffers are copied to an exact-size heap block that is freed before all accessors run; every (pointer, length) view must lie inside [getRawPayload(), +getLength()]. Views reported by a decoded packet are re-checked after the packet was copied, the accessors were called again and the copy was destroyed; buffers above 65535 bytes (and a quarter of the others) are also fed through the decoder as 2..5 segments and every packet returned valid is held to the same view oracle. A fixed set of 140 typed payloads is additionally decoded during static initialisation, inside main() and in an atexit handler (after the library\'s function-local statics are gone): the verdicts must agree and every valid packet passes the view oracle each time. Round 8: packets returned valid by a decoder one of whose earlier calls was cut short by an allocation failure; static-initialisation probe in a forked child.',
        level_note='Trusted: ASan and the range oracle in accessors.h. One-directional: rejected buffers are skipped (accept/reject split is reported).',
        stages=[dict(driver='drv_memsafe', flavour='asan'),
                dict(driver='fuzz_payload', flavour='fuzz', runner='fuzz', tiers=('thorough',), runs=dict(thorough=16000000), max_len=2048)],
        rule=('cases = (class, buffer); every buffer is one evaluation run through three paths. Non-trivial = buffer accepted by the class validator; distinct = distinct (class, buffer content hash).'),
        assumptions=COMMON_ASSUME,
        floors=dict(quick={'allocation_failure_histories': 1000, 'distinct_nontrivial': 20000, 'accepted_can': 1000, 'accepted_canfd': 1000, 'accepted_lin': 1000, 'accepted_eth': 1000, 'accepted_analog': 1000, 'accepted_cm': 1000, 'accepted_if': 1000, 'feat:c03_classes': 7, 'buffers_longer_than_65535_cases': 24},
                    thorough={'distinct_nontrivial': 200000, 'accepted_cm': 10000, 'accepted_if': 10000}),
    ),

    'C11': dict(
        technique='ASan+UBSan run of every public setter against a shadow bit-image of the object (table of offset/width/mask per field): read-back, all other getters, all other raw bits',
        level_text='Exploration, exhaustive for small fields: for 20 header/payload classes and 175 fields, every setter is called from default / all-zero / all-ones / random prior states with every in-range value (<= 8 bit exhaustive; <= 16 bit exhaustive in thorough) and in random set/clear sequences; after each call the value must read back, every other getter must equal the extract of the shadow image and no raw bit outside the field may change. Overlapping views (flags word vs single flags, id word, crc word, LIN pid) are judged through the shared shadow word. TECMP::Payload / TECMP::PayloadType type setters and TECMP::LinPayload::setData are part of the tables. A fixed builder sequence (every CAN / CAN-FD length 0..64, one object of every other class, raw packet headers) is additionally run during static initialisation, inside main() and in an atexit handler; the results must agree. Round 7: the run-time type tag of typed payload objects is changed through the Payload base (setRawPayloadType / setMessageType / setType, arbitrary values) between the field setters of a sequence and before every fourth single-setter case: no byte and no typed getter may change and every later setter is judged by the static class. Round 8: builder calls with an allocation failpoint (a call that completes although an allocation failed inside it is judged like any other).',
        level_note='Trusted: field table in harness/common/fields.h (offset, width, mask written from the protocol layout). Packet / PayloadType have no wire image: a virtual image serialised from their getters is used.',
        stages=[dict(driver='drv_fields', flavour='asan')],
        rule='cases = (class, field, background) with every in-range value written (exhaustive for fields <= 8 bits, for <= 16 bits a 600-value lattice in quick and exhaustive in thorough, boundary + walking bits + 64 random for wider fields, special and random finite values for floats) + random sequences of 8..64 setter calls on one object; every setter call is one evaluation. distinct_nontrivial = distinct (class, field, background in {default, all-zero, all-ones, random}, value class in {0, max, single-bit, other}) tuples.',
        assumptions=COMMON_ASSUME,
        floors=dict(quick={'type_tag_changes_inside_setter_sequences': 2000, 'setter_calls_on_objects_with_a_changed_type_tag': 3000, 'distinct_nontrivial': 2000, 'feat:fields_exercised': 175, 'setter_sequences': 3000}, thorough={'distinct_nontrivial': 2000, 'feat:fields_exercised': 175}),
    ),
    'C12': dict(
        technique='ASan+UBSan run comparing API writes and getter reads with an independent layout table (byte offset, width, bit mask, big-endian) on raw object images; header sizes and reserved bits of default objects',
        level_text='Exploration, exhaustive for small fields: (a) sizes of all header classes and default payloads equal the standard, reserved bits of default objects are zero; (b) a value written through the API appears big-endian at exactly the table position and nothing else changes; (c) for arbitrary raw images every getter returns the value the table extracts; (d) reserved bits survive every in-range write; (e) the variable-length parts written by setData (length prefixes, data, NUL / zero padding of strings and stream-id lists) sit at the offsets the layout prescribes, from default objects and from objects with prior content. Same executions as C11 (a-d) and C13 (e), judged against the layout table / wire-model serialisation. Packet::getRawCmpHeader / getRawMessageHeader are called for every message type into destinations pre-filled with zeros, ones and random bytes and all 24 bytes are compared with the layout; TECMP type words, TECMP LIN setData and the derived voltage getter are covered. A second stage runs the codec driver: the 16 message header bytes of every message the encoder emits (random batches and call histories, all message types) are compared with the layout computed from the packet\'s fields, and the reserved byte of every frame header must be zero. Round 8: builder calls with an allocation failpoint.',
        level_note='Trusted: the layout table, transcribed from ASAM CMP 1.0 / TECMP as documented in DESIGN.md section 6 (the standard documents are not in the sandbox; the captured frames in the repository tests corroborate it).',
        stages=[dict(driver='drv_fields', flavour='asan'), dict(driver='drv_codec', flavour='asan')],
        rule='cases = (class, field, background) with every in-range value written (exhaustive for fields <= 8 bits, for <= 16 bits a 600-value lattice in quick and exhaustive in thorough, boundary + walking bits + 64 random for wider fields, special and random finite values for floats) + random sequences of 8..64 setter calls on one object; every setter call is one evaluation. distinct_nontrivial = distinct (class, field, background in {default, all-zero, all-ones, random}, value class in {0, max, single-bit, other}) tuples.',
        assumptions=COMMON_ASSUME,
        floors=dict(quick={'distinct_nontrivial': 2000, 'feat:fields_exercised': 175, 'size_checks': 20, 'reserved_checks': 16, 'variable_part_layout_cases': 10000}, thorough={'distinct_nontrivial': 2000, 'feat:fields_exercised': 175}),
    ),
    'C13': dict(
        technique='ASan+UBSan run of setData / header-setter sequences per payload class; raw bytes compared with the wire model\'s serialisation of a shadow of the logical content; own validator and decoder must accept',
        level_text='Exploration with exhaustive length sweeps: CAN / CAN-FD / LIN data lengths 0..255, Ethernet / analog 0..70 + boundaries up to 65529, capture-module strings of every length 0..1000 for each of the four strings, all (first, second) stream-id counts in 0..40 x 0..40, and random sequences of 1..6 setData calls interleaved with header setters. After every setData: bytes equal the independent serialisation of the final content (hence history independent), getters return what was supplied, DLC code, NUL termination and even padding, validator and decoder accept. A fixed builder sequence (every CAN / CAN-FD length 0..64, one object of every other class) is additionally run during static initialisation, inside main() and in an atexit handler; the results must agree. Round 8: one builder call in sixteen runs with an allocation failpoint: a call that throws ends the sequence, a call that completes although an allocation failed inside it is judged like any other.',
        level_note='Trusted: wire-model serialisers in wire.h. Header flags used are bus-error free so that "the decoder accepts" is demanded only where the statement demands it.',
        stages=[dict(driver='drv_fields', flavour='asan')],
        rule='cases = builder sequences; every checked setData call is one evaluation; distinct_nontrivial = distinct (class, previous-length relation, parity pattern, DLC-code?/vendor-data?, first call?) tuples combined with the length.',
        assumptions=COMMON_ASSUME,
        floors=dict(quick=dict(distinct_nontrivial=5000, setdata_calls_checked=50000), thorough=dict(distinct_nontrivial=20000)),
    ),
    'C14': dict(
        technique='ASan+UBSan run of copy/move construction and assignment over all ordered (source, target) pairs of an object pool, snapshot comparison, no-sharing mutation test, equality laws on all pairs',
        level_text='Exploration with exhaustive pairing: a pool of ~40 packets (default packet, zero-length payloads of different types, every payload kind, equal-looking twins, 13 variants differing in exactly one field) - all ordered pairs x {copy-construct, move-construct, copy-assign, move-assign}, self-assignment, and all pairs for ==/!= (reflexive, symmetric, agrees with the field-by-field snapshot for non-empty payloads, != is the negation); Payload, typed payload bytes and TECMP::Payload likewise. After the all-pairs comparison every pool object is edited in place through a typed setter and must equal a never compared object with the same edit (and differ from its unedited twin), so must its copies; equality is also checked to discriminate other length / first byte / type. Round 8: a sub-pool of packets with payloads of 1 KiB .. 100 000 bytes through every operation pair and the stale-handle checks; packets built the way the decoder builds them (concrete payload class) and then flagged with a bus error by the application.',
        level_note='Trusted: snapshot.h (all null-safe getters + payload bytes). A packet without payload can only be observed through isValid()/getPayloadLength().',
        stages=[dict(driver='drv_fields', flavour='asan')],
        rule='cases = rounds over a pool (4 deterministic pools + seeded random pools); every operation on a pair is one evaluation; distinct_nontrivial = distinct (source class, target class, operation, relation) tuples.',
        assumptions=COMMON_ASSUME,
        floors=dict(quick={'large_payload_sub_pools': 100, 'distinct_nontrivial': 3000, 'equality_pairs': 50000, 'feat:c14_relations': 12}, thorough={'distinct_nontrivial': 3000}),
    ),

    'C15': dict(
        technique='ASan+UBSan run of Decoder::decode and TECMP::Decoder::Decode on wire-model TECMP frames; packets compared with an independent TECMP parse; unsupported / non-fitting messages must yield nothing',
        level_text='Exploration with exhaustive type sweeps: all 256 message types x 10 data types x 3 bodies, all 65536 data types on a data message, CAN 0..8 / CAN-FD 0..64 / LIN 0..8 data bytes x 0..3 CRC / checksum bytes x inner length byte fits -1/0/+1/+2/+200, bus status 0..40 entries (with incomplete tails, declared length +1 / 0), capture module status cut at every length, plus seeded random frames with arbitrary header fields; through both entry points. Expected packets come from an independent big-endian parse. A fixed set of 60 frames is decoded before main() and again inside a case; a quarter of the random cases run under a global C++ locale with digit grouping and a decimal comma. Round 7: all 65536 data-type values on both status kinds (every value except 0x00FF / 0xFF00 must convert); half of the random frames are followed directly by near-duplicates (one payload byte flipped, everything behind payload byte 12 renewed, one header field changed) and by the original again, each judged on its own.',
        level_note='Trusted: TECMP layout in wire.h (device id = byte 1 as the library defines its 28-byte header; chassis/silicon temperature offsets corroborated only by the captured frame in the repository tests). Leniencies: class CAN vs CAN-FD not compared; status messages with non-zero data type, data lengths beyond the bus limit and incomplete trailing bus entries run under the weaker oracle "nothing or correct"; bytes beyond 28 + payload length run under the safety oracle only.',
        stages=[dict(driver='drv_tecmp', flavour='asan'),
                dict(driver='fuzz_tecmp', flavour='fuzz', runner='fuzz', tiers=('thorough',), runs=dict(thorough=16000000), max_len=600)],
        rule='cases = TECMP frames; each frame through each of the two entry points is one evaluation; distinct_nontrivial = distinct (family, message type, data type, length class, CRC bytes, inner length delta) signatures.',
        assumptions=COMMON_ASSUME,
        floors=dict(quick=dict(data_types_swept_on_status_messages=65536, near_duplicates_behind_their_original=50000, distinct_nontrivial=60000, converted_and_compared=50000, expected_no_packet=50000, data_types_swept=65536, message_types_swept=256),
                    thorough=dict(distinct_nontrivial=60000, data_types_swept=65536, message_types_swept=256)),
    ),

    'C16': dict(
        technique='ASan+UBSan exhaustive depth-first execution of all operation sequences up to a bound on copies of the real Status object, every node compared with a reference latest-message map; plus long random sequences',
        level_text='Bounded-exhaustive exploration by execution: all sequences of length <= 5 (quick; <= 6 thorough) over the 28 concrete operations {update(cm,d), update(if,d,i), update(data,d), removeDeviceById(d), removeInterfaceById(d,i), clear} on 3 devices x 3 interfaces (ids chosen to collide under 8/16-bit truncation) are executed on copies of the real object and after EVERY operation the full observable state (counts, every lookup incl. absent ids, every stored packet, interface ids) is compared with a per-device/per-interface latest-message map; random sequences of length 200 go beyond the bound. Status payloads repeat (six per kind) while every header attribute, incl. the packet-level interface id and segment type, differs from packet to packet. One deterministic case feeds interface status payloads of 65535..131108 bytes (the lengths around which a 16-bit length wraps). Round 8: updates cut short by std::bad_alloc (one of the first six allocations): the tracker must equal the model before or after, never something in between.',
        level_note='Trusted: the 40-line map model in drv_status.cpp; Status is copied at each node with its own copy constructor (a copy that differed from the original would itself be flagged by the comparison). Entry order is unspecified and not compared.',
        stages=[dict(driver='drv_status', flavour='asan')],
        rule='cases = two-operation prefixes (784) whose subtree is explored exhaustively + random sequences; every operation executed is one evaluation (one full state comparison). distinct_nontrivial = distinct (model state hash before, operation) transitions.',
        assumptions=COMMON_ASSUME,
        floors=dict(quick=dict(distinct_nontrivial=2000, dfs_prefixes_completed=784, dfs_nodes=17000000), thorough=dict(distinct_nontrivial=2000, dfs_prefixes_completed=784, dfs_nodes=400000000)),
        coverage_static=dict(quick=dict(exhaustive_subspaces=['all 28^k operation sequences for k <= 5']), thorough=dict(exhaustive_subspaces=['all 28^k operation sequences for k <= 6'])),
    ),

    'C19': dict(
        technique='ThreadSanitizer (happens-before race detection) on T threads each driving its own Encoder/Decoder/Status and the static TECMP decoder on independent seeded workloads; per-thread digests compared with single-threaded runs; helgrind as second detector in thorough',
        level_text='Exploration of schedules: 8 (quick) / 16 (thorough) threads start on a barrier and run mixed workloads (encode+decode, reassembly, payload builders, TECMP conversion, status tracker) with sched_yield jitter between library calls; every other round is focused (all threads on one code path: encode+decode, decode, builders, TECMP, status, reassembly of 16..60 KiB messages); every output is folded into a digest that must equal the digest of the same workload run alone beforehand; the ThreadSanitizer log must contain no report block with a library frame (blocks de-duplicated by kind and library functions). An atomic counter records how many threads were inside library code simultaneously. Every fourth round gives each thread copies of one used prototype (Encoder that has sent frames, Decoder mid-reassembly, Status that knows devices) made before the threads start. One round in sixteen is heavy: every thread holds 700 unfinished 60000-byte messages in its own decoder at the same moment (barrier), then finishes them.',
        level_note='Trusted: ThreadSanitizer (reports unordered conflicting accesses even if they did not collide in time, which is what "no unsynchronised shared state" needs), valgrind helgrind. Sampled schedules, not all schedules.',
        stages=[dict(driver='drv_threads', flavour='tsan', runner='tsan', shards=dict(quick=4, thorough=4)),
                dict(driver='drv_threads', flavour='plain0', runner='helgrind', tiers=('thorough',), env=dict(VF_THREADS='4', VF_STEPS='60', VF_ROUNDS='3'))],
        rule='cases = rounds; one evaluation = one thread workload whose concurrent digest was compared with its single-threaded digest. Non-trivial iff at least 2 threads were inside library code at the same time during its round; distinct = distinct workload seeds.',
        assumptions=COMMON_ASSUME[1:] + ['g++ 12 ThreadSanitizer intercepts every synchronisation the harness uses (std::thread, atomics)'],
        floors={'quick': {'distinct_nontrivial': 64, 'rounds_with_overlapping_threads': 16, 'feat:c19_focused_rounds': 6},
                'thorough': dict(distinct_nontrivial=1000, rounds_with_overlapping_threads=100)},
    ),

    'C20': dict(
        technique='valgrind memcheck definedness client checks on every output byte / getter value of a mixed workload, plus a differential monitor (operator new fill patterns 0xA5 / 0x3C, freed blocks scribbled; -ftrivial-auto-var-init=zero versus =pattern builds) comparing output digests',
        level_text='Exploration: a seeded mixed workload (encode+decode of every payload kind, padded and unpadded frames, control / vendor / unknown-type messages whose header leaves id bytes unused, aggregated frames with invalid payloads, interleaved reassembly with trailing bytes, payload builders, TECMP conversion incl. LIN, status tracker) runs (1) under memcheck with VALGRIND_CHECK_MEM_IS_DEFINED on every frame byte, packet getter value, payload byte and re-serialised header, and every uninitialised-value error with a library frame taken from the valgrind log; (2) natively with fresh heap blocks filled with two different patterns (digests per case must be equal) in two builds whose uninitialised stack variables are zero / pattern filled (per-shard digest folds must be equal). A fixed 600-step workload is additionally run during static initialisation and compared with the same run inside main(). Round 8: decode calls cut short by an allocation failure and the frame offered again inside the workload (all four builds and under memcheck).',
        level_note='Trusted: valgrind memcheck bit-precise definedness tracking (binary built without sanitizers and without auto-var-init for this stage); the replaced operator new/delete in the harness. "All prior heap contents" is modelled by two fill patterns plus the definedness checker.',
        stages=[dict(driver='drv_uninit', flavour='plain', runner='memcheck', shards=dict(quick=16, thorough=16)),
                dict(driver='drv_uninit', flavour='plain0', fold_feature='case_digest_fold'),
                dict(driver='drv_uninit', flavour='plainP', fold_feature='case_digest_fold')],
        rule='cases = workload cases of 6 steps on fresh objects; one evaluation = one case under memcheck or one case run twice with different heap fill patterns. distinct_nontrivial = distinct generator-label sequences (generator, sub-kind, padded?, message-type class) observed; the memcheck stage alone must reach every generator class (feature c20_generators_under_memcheck).',
        assumptions=COMMON_ASSUME[1:] + ['valgrind 3.19 memcheck reports every use of undefined values it is designed to detect; client requests are honoured'],
        floors=dict(quick={'distinct_nontrivial': 2000, 'memcheck_client_checks': 400000, 'memcheck_cases': 6400, 'differential_cases': 320000, 'feat:c20_generators_under_memcheck': 19},
                    thorough={'distinct_nontrivial': 5000, 'memcheck_cases': 200000, 'feat:c20_generators_under_memcheck': 19}),
    ),
}


# Every sharded ASan+UBSan stage is run a second time against the library compiled the way the repository itself compiles it
# (RelWithDebInfo: -O2 -DNDEBUG, flavour asanR): every fourth case (k mod 4 = seed mod 4) in both tiers.
# C20's differential fold gets a third build (-O2 -DNDEBUG, zero-filled locals) whose output digests must equal the others';
# C19 runs its rounds under a -O2 -DNDEBUG ThreadSanitizer build as well in the thorough tier.
for _p, _cfg in PROPS.items():
    _extra = []
    for _st in _cfg['stages']:
        if _st.get('flavour') == 'asan' and _st.get('runner', 'shards') == 'shards':
            _r = dict(_st)
            _r['flavour'] = 'asanR'
            _r['subsample'] = dict(quick=4, thorough=4)
            _extra.append(_r)
    _cfg['stages'] = list(_cfg['stages']) + _extra
    if _extra:
        _cfg['level_note'] += ' Every sharded ASan+UBSan stage runs twice: library and harness compiled -O1 with assertions enabled, and compiled as the repository compiles itself (-O2 -DNDEBUG; every fourth case, k mod 4 = seed mod 4, in both tiers).'
PROPS['C20']['stages'].append(dict(driver='drv_uninit', flavour='plainR0', fold_feature='case_digest_fold'))
PROPS['C19']['stages'].append(dict(driver='drv_threads', flavour='tsanR', runner='tsan', shards=dict(quick=4, thorough=4), tiers=('thorough',)))
