"""Per-property configuration of the orchestrator: which driver/flavour stages decide it, the
non-triviality rule reported in the evidence, the assumptions, and the coverage floors."""

COMMON_ASSUME = [
    'g++ 12 AddressSanitizer/UBSan (vptr, alignment, nonnull-attribute checks off, see DESIGN.md 3.2) report every '
    'violation they are designed to detect in executed code',
    'the hand-written big-endian wire model in harness/common/wire.h transcribes the ASAM CMP layout correctly '
    '(corroborated by the captured frames in the repository tests)',
    'exploration, not proof: the verdict covers the executions listed under coverage only',
]

CODEC_RULE = ('cases = deterministic sweeps (every single-packet case max in [25,96] x len in [1,3*max]; two-packet lattice for max in '
              '{25,26,40,41,64,100}; min sweeps; one aggregated and one segmented batch per payload kind; mixed-type batches; 65535-byte payloads) '
              '+ seeded random batches whose lengths are drawn around the fit/no-fit boundaries of the running reference layout '
              '+ encoder histories. A batch is non-trivial iff it produced >= 2 messages in one frame or >= 1 segmented packet; '
              'distinct = distinct hash of (max, min class, per packet (kind, length - nearest multiple of the frame capacity clipped to +-3, '
              'multiple, segmented?)).')


def codec_stage():
    return dict(driver='drv_codec', flavour='asan')


PROPS = {
    'C01': dict(
        technique='ASan+UBSan run of encode->decode on generated batches with snapshot round-trip oracle and independent wire-level frame walker',
        level_text='Exploration: every generated batch (boundary sweeps + seeded random, all payload kinds, all encode overloads, 25 <= max <= 65559) is encoded by the real Encoder and decoded by the real Decoder under ASan/UBSan; decoded packets are compared field by field with the originals and the frames are also parsed by an independent big-endian walker so that errors cancelling between encoder and decoder stay visible. Right level: the property is a universally quantified input/output relation of pure, microsecond-fast code, so dense boundary-directed sampling with an exact oracle is what runtime monitoring can give.',
        level_note='Trusted: wire model (harness/common/wire.h), snapshot of public getters, g++ sanitizers. Not covered: inputs outside the generated shapes; nothing is proved.',
        stages=[codec_stage()],
        rule=CODEC_RULE,
        assumptions=COMMON_ASSUME + ['the original packet is observed through its getters before encoding; decoded packets through snapshot.h'],
        floors=dict(quick=dict(distinct_nontrivial=2000, segment_messages=10000, padded_frames=100, roundtrip_with_decoder_history=100),
                    thorough=dict(distinct_nontrivial=20000, segment_messages=100000)),
    ),
    'C07': dict(
        technique='ASan+UBSan run of Encoder::encode with an independent frame walker and exactly-once byte conservation monitor',
        level_text='Exploration: every frame returned for generated batches/configurations is parsed by a walker that shares no code with the library (size bounds, >= 1 complete message, exact tiling, zero padding only up to min, padding only when needed) and every payload byte is matched exactly once and in order against the packets; empty batches on fresh and used encoders are included; sanitizers watch for crashes.',
        level_note='Trusted: wire model and walker; domain packets have a non-zero payload type byte (how padding is recognised).',
        stages=[codec_stage()],
        rule=CODEC_RULE,
        assumptions=COMMON_ASSUME + ['all domain packets carry a non-zero payload-type byte, which is how the independent walker tells a message from padding'],
        floors=dict(quick=dict(distinct_nontrivial=2000, padded_frames=100, empty_batches=4),
                    thorough=dict(distinct_nontrivial=20000, padded_frames=1000, empty_batches=4)),
    ),
    'C08': dict(
        technique='ASan+UBSan run of Encoder::encode; observed frame layout compared with an executable reference model of the segmentation/aggregation rules',
        level_text='Exploration: the layout observed on the wire (which packet, which segment flag, offset, length, per frame) must equal the layout computed by a 60-line reference model written from the rule text, for dense sweeps around every fit/no-fit boundary and seeded random batches; rule-specific keys name the first broken rule.',
        level_note='Trusted: ref_encoder.h implements exactly the rules of the statement (they determine the layout uniquely); wire walker.',
        stages=[codec_stage()],
        rule=CODEC_RULE + ' Extra counters fit_boundary_*[d] give how often a packet length was exactly d bytes from a fit/no-fit boundary.',
        assumptions=COMMON_ASSUME + ['the rules of the statement determine the layout uniquely; harness/common/ref_encoder.h implements exactly those rules'],
        floors=dict(quick={'distinct_nontrivial': 2000, 'fit_boundary_fresh_frame[0]': 100, 'fit_boundary_fresh_frame[1]': 100, 'fit_boundary_fresh_frame[-1]': 100,
                           'fit_boundary_remaining_space[0]': 50, 'fit_boundary_remaining_space[1]': 50, 'fit_boundary_remaining_space[-1]': 50,
                           'type_change_inside_batch': 500},
                    thorough={'distinct_nontrivial': 20000, 'fit_boundary_remaining_space[0]': 1000, 'fit_boundary_remaining_space[1]': 1000}),
    ),
    'C09': dict(
        technique='ASan+UBSan run of encoder histories with a shadow-state monitor over frame headers (identity, version, type, consecutive 16-bit counter, resets)',
        level_text='Exploration: histories of setDeviceId/setStreamId/restart/encode on one encoder, including deterministic histories emitting > 140000 frames (two wraps) and resets placed at counters 65535/0/1, are monitored frame by frame against a shadow state; getSequenceCounter() is compared with the last emitted frame after every call.',
        level_note='Trusted: shadow model (reset to 0 on set*/restart, +1 mod 65536 per frame). The value reported between a reset and the next frame is unspecified and unchecked.',
        stages=[codec_stage()],
        rule=('cases = encoder histories of {setDeviceId, setStreamId, restart, encode(batch, ctx)}: deterministic ones that emit > 140000 frames on one '
              'encoder (two counter wraps) and place resets at counter 65535 / 0 / 1, all ordered pairs of 12 canonical batch shapes, and seeded random '
              'histories; plus single-call batches. A history is non-trivial iff it has >= 2 encode calls, >= 2 frames and at least one reset or wrap; '
              'distinct = distinct hash of the op sequence with batch shape signatures.'),
        assumptions=COMMON_ASSUME + ['the counter reported between a reset and the next emitted frame is not specified by the property and not checked'],
        floors=dict(quick=dict(distinct_nontrivial=100, counter_wraps=3, histories=300), thorough=dict(distinct_nontrivial=5000, counter_wraps=3)),
    ),
    'C10': dict(
        technique='ASan+UBSan differential monitor: n-th encode call on a used encoder versus a fresh encoder for the same batch, after every call of generated histories',
        level_text='Exploration: after every encode call of every generated history (mixed contexts, message types, batches ending with segmented packets, empty batches, config changes) the frames are compared with those of a fresh encoder with the same ids: same count, identical bytes outside the counter, constant counter offset; sanitizers and the signal/abort path catch crashes caused by leftover state.',
        level_note='Trusted: the fresh encoder run is itself checked by the C07/C08 oracles in the same execution.',
        stages=[codec_stage()],
        rule=('cases = encoder histories; after EVERY encode call the frames are compared with those of a fresh encoder (same ids) for the same batch: equal '
              'count, equal bytes outside the counter field, constant counter offset. A comparison is non-trivial iff it is not the first call of its '
              'history; distinct = distinct hash of (last message type of the previous call, first type of this call, previous call ended with a '
              'segmented packet?, this call needs segmentation?, batch shape signature).'),
        assumptions=COMMON_ASSUME,
        floors=dict(quick={'distinct_nontrivial': 1000, 'feat:c10_transition': 12}, thorough={'distinct_nontrivial': 20000, 'feat:c10_transition': 16}),
    ),
}
