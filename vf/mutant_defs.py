"""Hand-written mutants: realistic edits that compile, keep the repository's tests green and break a property.
Each: name, what, expect (properties whose quick check must fire), edits [(file, old, new)]."""

MUTANTS = [
    # ---------------- encoder ----------------
    dict(name='enc-fit-off-by-one', what='fit test uses <= : a packet that exactly fills the remaining space opens a new frame / is segmented',
         expect=['C08'],
         edits=[('src/encoder.cpp',
                 "    bool isSegmented = (!cmpFrames.empty() && bytesLeft < sizeof(MessageHeader) + packet.getPayloadLength());\n    if (isSegmented && bytesLeft",
                 "    bool isSegmented = (!cmpFrames.empty() && bytesLeft <= sizeof(MessageHeader) + packet.getPayloadLength());\n    if (isSegmented && bytesLeft")]),
    dict(name='enc-stream-no-counter-reset', what='setStreamId no longer resets the sequence counter', expect=['C09'],
         edits=[('src/encoder.cpp', "    streamId = newStreamId;\n    clearEncodingMetadata(true);", "    streamId = newStreamId;\n    clearEncodingMetadata(false);")]),
    dict(name='enc-ids-from-packet', what='frame header keeps the device id stored in the packet instead of the encoder\'s', expect=['C09', 'C01'],
         edits=[('src/encoder.cpp', "    cmpHeader->setDeviceId(deviceId);\n", "    if (deviceId != 0)\n        cmpHeader->setDeviceId(deviceId);\n")]),
    dict(name='enc-counter-skips-zero', what='sequence counter skips 0 when it wraps (65535 -> 1)', expect=['C09'],
         edits=[('src/encoder.cpp', "    header->setSequenceCounter(++sequenceCounter);", "    if (++sequenceCounter == 0)\n        ++sequenceCounter;\n    header->setSequenceCounter(sequenceCounter);")]),
    dict(name='enc-padding-only-last-frame', what='only the last frame of a batch is padded to the minimum size', expect=['C07'],
         edits=[('src/encoder.cpp', "    if (!cmpFrames.empty())\n        cmpFrames.back().resize(std::max(cmpFrames.back().size() - bytesLeft, minBytesPerMessage), 0);\n\n    if (cmpFrameTemplate.empty())",
                 "    if (!cmpFrames.empty())\n        cmpFrames.back().resize(cmpFrames.back().size() - bytesLeft, 0);\n\n    if (cmpFrameTemplate.empty())")]),
    dict(name='enc-last-segment-flag', what='a segment that ends one byte before the payload end is already flagged last', expect=['C08', 'C07'],
         edits=[('src/encoder.cpp', "(currentPayloadPos + bytesToAdd == payloadSize ?", "(currentPayloadPos + bytesToAdd + 1 >= payloadSize ?")]),
    dict(name='enc-vendor-id-only-status', what='vendor id written only for status messages, not for vendor-defined messages', expect=['C01'],
         edits=[('src/packet.cpp', "        case MessageType::status:\n        case MessageType::vendor:\n            header.setVendorId(getVendorId());",
                 "        case MessageType::status:\n            header.setVendorId(getVendorId());\n            break;\n        case MessageType::vendor:")]),
    dict(name='enc-template-cached-across-calls', what='frame header template cached across encode calls while message type and max size stay the same: the previous batch\'s protocol version leaks into the next call', expect=['C10', 'C09'],
         edits=[('src/encoder.cpp', "    cmpFrameTemplate.clear();\n    messageType = CmpHeader::MessageType::undefined;", "    if (clearSequenceCounter)\n        cmpFrameTemplate.clear();\n    messageType = CmpHeader::MessageType::undefined;"),
                ('src/encoder.cpp', "    messageType = packet.getMessageType();\n    cmpFrameTemplate.clear();", "    messageType = packet.getMessageType();\n    if (cmpFrameTemplate.size() != maxBytesPerMessage || cmpFrameTemplate[4] != to_underlying(messageType))\n        cmpFrameTemplate.clear();")]),
    dict(name='enc-append-after-segment', what='after a last segment the frame stays open: the next small packet is appended to a frame that holds a segment', expect=['C08'],
         edits=[('src/encoder.cpp', "            cmpFrame.resize(std::max(cmpFrame.size() - bytesLeft, minBytesPerMessage), 0);\n            bytesLeft = 0;\n", "")]),
]
