#!/usr/bin/env python3
"""Orchestrator: build -> shard -> aggregate -> known-findings -> evidence -> exit code.

usage: check.py Cxx [--tier quick|thorough] [--replay PATH]
env:   VERIF_SEED (default 1), VERIF_TIER (overrides --tier), VERIF_JOBS (default 16), VERIF_REPO (default /repo)

exit 0: property held on everything explored (open known findings print KNOWN-FINDING lines)
exit 1: violation(s): one line  VIOLATION property=<id> replay=<path>  per distinct violation key
exit 2: inconclusive (harness failure, watchdog, coverage floor missed) - never folded into the other two
"""
import array
import hashlib
import json
import os
import re
import shutil
import subprocess
import sys
import time
from concurrent.futures import ThreadPoolExecutor

HERE = os.path.dirname(os.path.abspath(__file__))
sys.path.insert(0, HERE)
import build  # noqa: E402
import findings  # noqa: E402
from props import PROPS  # noqa: E402

VERIF = os.path.dirname(HERE)
EVID = os.path.join(VERIF, 'evidence')
REPLAYS = os.path.join(VERIF, 'replays')

ASAN_OPTIONS = ('abort_on_error=1:detect_leaks=1:max_allocation_size_mb=1024:allocator_may_return_null=0:'
                'detect_stack_use_after_return=1:handle_abort=1:print_summary=1:symbolize=1')
UBSAN_OPTIONS = 'print_stacktrace=1:halt_on_error=1:symbolize=1'
MAX_RESTARTS = 64


def all_targets():
    t = []
    for p in PROPS.values():
        for st in p['stages']:
            x = (st['flavour'], st['driver'])
            if x not in t:
                t.append(x)
    return t


def jobs():
    return max(1, int(os.environ.get('VERIF_JOBS', '16')))


# ----------------------------------------------------------------------------------------------
# sanitizer report -> stable key

LIB_FRAME = re.compile(r'#\d+ 0x[0-9a-f]+ in (.+?) (/\S+?):\d+')


def lib_function(stderr_text):
    """first stack frame that lies in the library under test (src/ or include/asam_cmp/)"""
    root = os.path.realpath(build.repo())
    for m in LIB_FRAME.finditer(stderr_text):
        func, path = m.group(1), os.path.realpath(m.group(2))
        if path.startswith(root + '/src/') or path.startswith(root + '/include/'):
            f = func.split('(')[0].strip()
            if ' ' in f:
                f = f.split(' ')[-1]  # drop a leading return type (templates are printed with it)
            return f
    return 'no-library-frame'


def crash_key(stderr_text, returncode):
    m = re.search(r'VF-ORACLE-VIOLATION key=(\S+)', stderr_text)
    if m:
        return m.group(1)
    m = re.search(r'ERROR: AddressSanitizer: ([\w-]+)', stderr_text)
    if m:
        return 'asan:%s:%s' % (m.group(1), lib_function(stderr_text[m.start():]))
    m = re.search(r'ERROR: LeakSanitizer', stderr_text)
    if m:
        return 'lsan:leak:%s' % lib_function(stderr_text[m.start():])
    m = re.search(r'runtime error: (.+)', stderr_text)
    if m:
        msg = m.group(1)
        msg = re.sub(r'0x[0-9a-f]+', 'ADDR', msg)
        msg = re.sub(r'\d+', 'N', msg)
        msg = re.sub(r"'[^']*'", 'T', msg)
        msg = re.sub(r'\s+', '-', msg.strip())[:60]
        return 'ubsan:%s:%s' % (msg, lib_function(stderr_text[m.start():]))
    if returncode is not None and returncode < 0:
        import signal
        try:
            name = signal.Signals(-returncode).name
        except ValueError:
            name = 'SIG%d' % -returncode
        return 'signal:%s' % name
    return 'abnormal-exit:%s' % returncode


# ----------------------------------------------------------------------------------------------


class ShardResult:
    def __init__(self):
        self.reports = []      # parsed driver reports (one per (re)start segment)
        self.violations = []   # dicts: prop,key,case,detail,input,(stderr)
        self.sigs = set()
        self.inconclusive = None
        self.restarts = 0


def read_progress(path):
    try:
        data = open(path, 'rb').read()
    except OSError:
        return None, ''
    head = data[:64].split(b'\n')[0].strip(b'\0').strip()
    note = data[64:].split(b'\0')[0].decode('utf-8', 'replace')
    try:
        return int(head), note
    except ValueError:
        return None, note


def run_shard(exe, prop, tier, seed, shard, nshards, workdir, timeout, extra_args, env):
    res = ShardResult()
    out = os.path.join(workdir, 'shard%02d.json' % shard)
    start = 0
    hang_retry = False
    while True:
        for suffix in ('', '.progress', '.sigs'):
            try:
                os.remove(out + suffix)
            except OSError:
                pass
        cmd = [exe, '--prop', prop, '--tier', tier, '--seed', str(seed), '--shard', str(shard), '--nshards', str(nshards),
               '--start', str(start), '--out', out] + list(extra_args)
        errpath = out + '.stderr'
        with open(errpath, 'w') as ef:
            try:
                p = subprocess.run(cmd, stdout=subprocess.DEVNULL, stderr=ef, env=env, timeout=timeout)
                rc = p.returncode
                timed_out = False
            except subprocess.TimeoutExpired:
                rc = None
                timed_out = True
        stderr_text = open(errpath, errors='replace').read()[-200000:]
        report = None
        if os.path.exists(out):
            try:
                report = json.load(open(out))
            except Exception:
                report = None
        if report:
            res.reports.append(report)
            try:
                a = array.array('Q')
                with open(out + '.sigs', 'rb') as f:
                    a.frombytes(f.read())
                res.sigs.update(a)
            except OSError:
                pass
        case, note = read_progress(out + '.progress')
        if timed_out:
            if not hang_retry:
                hang_retry = True
                hang_case = case
                continue  # re-run the same segment once
            if case is not None and case == hang_case:
                res.violations.append(dict(prop=prop, key='hang:case-does-not-terminate', case=case, seed=seed, tier=tier,
                                           detail='shard exceeded the %ds watchdog twice at the same case' % timeout, input=note))
                start = case + 1
                hang_retry = False
                res.restarts += 1
                if res.restarts > MAX_RESTARTS:
                    res.inconclusive = 'too many restarts'
                    break
                continue
            res.inconclusive = 'watchdog fired (non reproducible position)'
            break
        if rc in (0, 1) and report and report.get('complete'):
            break
        # terminated from outside (SIGTERM / SIGKILL: an operator, the OOM killer): not an observation about the library
        if rc in (-15, -9):
            res.inconclusive = 'driver was terminated from outside (signal %d)' % -rc
            break
        # abnormal termination: sanitizer abort, signal, leak report at exit ...
        key = crash_key(stderr_text, rc)
        if report and report.get('complete'):
            # the run finished and then failed at exit (LeakSanitizer): nothing to restart
            res.violations.append(dict(prop=prop, key=key, case=-1, seed=seed, tier=tier,
                                       detail='reported at process exit', input='', stderr=stderr_text[-6000:]))
            break
        if case is None or case < 0:
            res.inconclusive = 'driver died outside a case (rc=%s): %s' % (rc, stderr_text[-500:])
            break
        res.violations.append(dict(prop=prop, key=key, case=case, seed=seed, tier=tier,
                                   detail='process terminated inside case %d (rc=%s)' % (case, rc), input=note,
                                   stderr=stderr_text[-6000:]))
        start = case + 1
        res.restarts += 1
        if res.restarts > MAX_RESTARTS:
            res.inconclusive = 'more than %d restarts' % MAX_RESTARTS
            break
    # oracle violations logged by the driver (all segments append to the same file)
    try:
        for line in open(out + '.viol'):
            line = line.strip()
            if line:
                try:
                    res.violations.append(json.loads(line))
                except Exception:
                    pass
    except OSError:
        pass
    return res


def run_stage_shards(prop, tier, seed, stage, workdir):
    exe = build.build_driver(stage['flavour'], stage['driver'])
    nshards = stage.get('shards', {}).get(tier, jobs())
    nshards = max(1, min(nshards, 64))
    # subsample q: the stage runs every q-th case only (cases k with k mod q == seed mod q), spread over the same number of shards
    q = max(1, int(stage.get('subsample', {}).get(tier, 1)))
    total = nshards * q
    picks = [s * q + (seed % q) for s in range(nshards)]
    env = dict(os.environ)
    env['ASAN_OPTIONS'] = ASAN_OPTIONS
    env['UBSAN_OPTIONS'] = UBSAN_OPTIONS
    env.update(stage.get('env', {}))
    timeout = stage.get('timeout', {}).get(tier, 900 if tier == 'quick' else 4 * 3600)
    sdir = os.path.join(workdir, stage['driver'] + '-' + stage['flavour'])
    os.makedirs(sdir, exist_ok=True)
    with ThreadPoolExecutor(max_workers=jobs()) as ex:
        futs = [ex.submit(run_shard, exe, prop, tier, seed, s, total, sdir, timeout, stage.get('args', []), env)
                for s in picks]
        return [f.result() for f in futs]


# ----------------------------------------------------------------------------------------------


def write_replay(prop, v):
    os.makedirs(REPLAYS, exist_ok=True)
    h = hashlib.sha256((prop + v['key']).encode()).hexdigest()[:12]
    path = os.path.join(REPLAYS, '%s-%s.json' % (prop, h))
    json.dump(dict(property=prop, key=v['key'], case=v.get('case'), seed=v.get('seed'), tier=v.get('tier'),
                   driver=v.get('driver'), flavour=v.get('flavour'), detail=v.get('detail'), input=v.get('input'),
                   stderr=v.get('stderr', ''), repo=build.repo(),
                   how='python3 vf/check.py %s --replay %s  (re-executes the recorded case of the recorded generator; '
                       '"input" is the explicit witness)' % (prop, path)),
              open(path, 'w'), indent=1)
    return path


def do_replay(prop, path):
    r = json.load(open(path))
    stage = None
    for st in PROPS[prop]['stages']:
        if st['driver'] == r.get('driver') and st['flavour'] == r.get('flavour'):
            stage = st
    if stage is None:
        stage = PROPS[prop]['stages'][0]
    exe = build.build_driver(stage['flavour'], stage['driver'])
    env = dict(os.environ)
    env['ASAN_OPTIONS'] = ASAN_OPTIONS
    env['UBSAN_OPTIONS'] = UBSAN_OPTIONS
    env.update(stage.get('env', {}))
    cmd = [exe, '--prop', prop, '--tier', r.get('tier') or 'quick', '--seed', str(r.get('seed') or 1), '--only', str(r.get('case')), '-v'] + list(stage.get('args', []))
    print('replaying: ' + ' '.join(cmd))
    print('recorded input: ' + (r.get('input') or '')[:2000])
    p = subprocess.run(cmd, env=env, capture_output=True, text=True)
    sys.stdout.write(p.stderr[-8000:])
    if p.returncode == 0:
        print('replay: no violation reproduced')
        return 0
    print('VIOLATION property=%s replay=%s' % (prop, path))
    return 1


def main():
    args = sys.argv[1:]
    if not args or args[0] not in PROPS:
        print(__doc__)
        print('properties:', ' '.join(sorted(PROPS)))
        return 2
    prop = args[0]
    tier = 'quick'
    replay = None
    i = 1
    while i < len(args):
        if args[i] == '--tier':
            tier = args[i + 1]
            i += 2
        elif args[i] == '--replay':
            replay = args[i + 1]
            i += 2
        else:
            print('unknown argument', args[i])
            return 2
    tier = os.environ.get('VERIF_TIER') or tier
    if tier not in ('quick', 'thorough'):
        tier = 'quick'
    try:
        seed = int(os.environ.get('VERIF_SEED', '1'))
    except ValueError:
        seed = 1
    if replay:
        return do_replay(prop, replay)

    cfg = PROPS[prop]
    t0 = time.time()
    workdir = os.path.join(build.BUILD, 'run-%s-%s-%d' % (prop, tier, os.getpid()))
    shutil.rmtree(workdir, ignore_errors=True)
    os.makedirs(workdir)
    inconclusive = []
    violations = []
    counters = {}
    features = {}
    sigs = set()
    samples = []
    evaluations = 0
    cases_run = 0
    restarts = 0
    stage_info = []
    folds = []
    try:
        for stage in cfg['stages']:
            if tier not in stage.get('tiers', ('quick', 'thorough')):
                continue
            ts = time.time()
            runner = stage.get('runner', 'shards')
            if runner == 'shards':
                results = run_stage_shards(prop, tier, seed, stage, workdir)
            else:
                import special
                results = special.RUNNERS[runner](prop, tier, seed, stage, workdir, sys.modules[__name__])
            st_eval = 0
            st_feats = {}
            for r in results:
                if r.inconclusive:
                    inconclusive.append('%s: %s' % (stage['driver'], r.inconclusive))
                restarts += r.restarts
                for v in r.violations:
                    v['driver'] = stage['driver']
                    v['flavour'] = stage['flavour']
                    violations.append(v)
                sigs |= r.sigs
                for rep in r.reports:
                    evaluations += rep.get('evaluations', 0)
                    st_eval += rep.get('evaluations', 0)
                    cases_run += rep.get('cases_run', 0)
                    for k, v in rep.get('counters', {}).items():
                        counters[k] = counters.get(k, 0) + v
                    for k, v in rep.get('features', {}).items():
                        features.setdefault(k, set()).update(v)
                        st_feats.setdefault(k, set()).update(v)
                    for s in rep.get('samples', []):
                        if len(samples) < 5:
                            samples.append(s)
            stage_info.append(dict(driver=stage['driver'], flavour=stage['flavour'], runner=runner,
                                   evaluations=st_eval, wall_s=round(time.time() - ts, 2)))
            if stage.get('fold_feature'):
                folds.append((stage['flavour'], st_feats.get(stage['fold_feature'], set())))
    except Exception as e:  # build failure or harness bug: inconclusive, never a verdict
        inconclusive.append('harness failure: %s' % str(e)[-3000:])

    # stages that must produce identical outputs (same seed, same shards, different build flavour)
    if len(folds) >= 2 and not inconclusive:
        base_flavour, base = folds[0]
        for fl, f in folds[1:]:
            if f != base:
                diff = sorted(base ^ f)[:6]
                violations.append(dict(prop=prop, key='%s:outputs-differ-between-build-flavours' % prop, case=-1, seed=seed, tier=tier,
                                       detail='per-shard output digests differ between the %s and %s builds (shard:digest entries that differ: %s)' % (base_flavour, fl, ', '.join(diff)),
                                       input='', driver=cfg['stages'][0]['driver'], flavour=fl))
    features.pop('case_digest_fold', None)

    # only violations of this property count (drivers run neighbouring oracles too)
    # keys starting with 'harness:' are self-checks of the machinery: inconclusive, never a verdict on the library
    for v in violations:
        if str(v.get('key', '')).startswith('harness:'):
            inconclusive.append('harness self-check failed: %s %s' % (v.get('key'), (v.get('detail') or '')[:300]))
    violations = [v for v in violations if not str(v.get('key', '')).startswith('harness:')]
    own = [v for v in violations if v.get('prop') == prop]
    by_key = {}
    for v in own:
        by_key.setdefault(v['key'], v)
    known, unknown = [], []
    for key, v in sorted(by_key.items()):
        f = findings.open_finding(prop, key)
        (known if f else unknown).append((key, v, f))

    # coverage floors ("fail a run that observed nothing")
    floors = cfg.get('floors', {}).get(tier, {})
    for k, need in floors.items():
        have = len(sigs) if k == 'distinct_nontrivial' else (evaluations if k == 'evaluations' else
                                                              (len(features.get(k[5:], ())) if k.startswith('feat:') else counters.get(k, 0)))
        if have < need and not unknown:
            inconclusive.append('coverage floor missed: %s = %d < %d' % (k, have, need))

    verdict = 'violated' if unknown else ('inconclusive' if inconclusive else 'held')
    wall = time.time() - t0
    cov = dict(evaluations=int(evaluations), distinct_nontrivial=len(sigs), rule=cfg['rule'],
               samples=samples if samples else ['(no sample recorded)'],
               verdict=verdict, cases_run=cases_run, counters=counters,
               features={k: sorted(v)[:200] for k, v in features.items()},
               feature_counts={k: len(v) for k, v in features.items()},
               stages=stage_info, process_restarts_after_fatal_reports=restarts,
               violation_keys=sorted(by_key), known_finding_keys=[k for k, _, _ in known],
               inconclusive_reasons=inconclusive, exhaustive=False, repo=build.repo(), tree_hash=build.tree_hash()[:16])
    cov.update(cfg.get('coverage_static', {}).get(tier, {}))
    ev = dict(property_id=prop, tier=tier, seed=seed, level='exploration', coverage=cov,
              assumptions=cfg['assumptions'], wall_s=round(wall, 2), violations=len(unknown))
    os.makedirs(EVID, exist_ok=True)
    if os.environ.get('VERIF_NO_EVIDENCE') != '1':
        tmp = os.path.join(EVID, '%s.json.tmp%d' % (prop, os.getpid()))
        json.dump(ev, open(tmp, 'w'), indent=1)
        os.replace(tmp, os.path.join(EVID, prop + '.json'))

    print('%s %s seed=%d: verdict=%s evaluations=%d distinct_nontrivial=%d cases=%d wall=%.1fs'
          % (prop, tier, seed, verdict, evaluations, len(sigs), cases_run, wall))
    for key, v, f in known:
        print('KNOWN-FINDING: property=%s %s [%s]' % (prop, f.get('what', ''), key))
    for key, v, _ in unknown:
        path = write_replay(prop, v)
        print('violation key=%s case=%s: %s' % (key, v.get('case'), (v.get('detail') or '')[:400]))
        print('VIOLATION property=%s replay=%s' % (prop, path))
    for r in inconclusive:
        print('INCONCLUSIVE: ' + r[:1500])
    if os.environ.get('VERIF_KEEP_WORK') != '1':
        shutil.rmtree(workdir, ignore_errors=True)
    if unknown:
        return 1
    if inconclusive:
        return 2
    return 0


if __name__ == '__main__':
    sys.exit(main())
