#!/usr/bin/env python3
"""Development tooling: regenerate section 11 of DESIGN.md ("Which checks catch which changes") from
mutants/index.json + mutants/selftest_last_run.log (11.1) and seeded/*/meta.json (11.2)."""
import glob
import json
import os
import re

VERIF = os.path.dirname(os.path.dirname(os.path.abspath(__file__)))
HEAD = '## 11. Which checks catch which changes'


def esc(s):
    return s.replace('|', '\\|').replace('\n', ' ')


def mutants():
    idx = json.load(open(os.path.join(VERIF, 'mutants', 'index.json')))
    log = open(os.path.join(VERIF, 'mutants', 'selftest_last_run.log'), errors='replace').read().splitlines()
    tests, res = {}, {}
    for l in log:
        m = re.match(r'^(\S+)\s+repo tests: (\w+)', l)
        if m:
            tests[m.group(1)] = m.group(2).lower()
            continue
        m = re.match(r'^(\S+)\s+(C\d\d): (\w+) \(exit (\d+), [\d.]+s\)\s*(.*)$', l)
        if m:
            res.setdefault(m.group(1), []).append((m.group(2), m.group(3), m.group(5)))
    pairs = sum(len(v) for v in res.values())
    caught = sum(1 for v in res.values() for x in v if x[1] == 'CAUGHT')
    out = ['### 11.1 Mutants (`vf/selftest.py --build-tests`, log: `mutants/selftest_last_run.log`)', '']
    out.append('%d hand-written mutants; %d (mutant, property) pairs, %d caught by the quick tier; "repo tests" says whether the repository\'s own 293 tests' % (len(idx), pairs, caught))
    out.append('still pass with the mutant applied (mutants whose tests fail or which do not build under `-Werror` are kept because')
    out.append('they still validate the monitor, but they are not "realistic breaks that pass the tests"). A mutant marked')
    out.append('*equivalent* no longer changes behaviour on the repaired tree and is expected to be reported by no check.')
    out.append('')
    out.append('| mutant | what | repo tests | property: first keys reported |')
    out.append('|---|---|---|---|')
    for m in idx:
        n = m['name']
        cells = []
        for prop, verdict, keys in res.get(n, []):
            k = ', '.join(keys.split(', ')[:2])[:110]
            cells.append('%s %s: `%s`' % (prop, verdict.lower(), k) if k else '%s %s' % (prop, verdict.lower()))
        if not m.get('expect'):
            cells.append('equivalent on the repaired tree: no check expected to report it')
        out.append('| `%s` | %s | %s | %s |' % (n, esc(m.get('what', '')), tests.get(n, '-'), '<br>'.join(cells) or '-'))
    return out


def seeds():
    out = ['', '### 11.2 Independently seeded changes (`/verif/seeded/<id>/`: patch.diff, demo.cpp, README.txt, meta.json)', '']
    metas = []
    for d in sorted(glob.glob(os.path.join(VERIF, 'seeded', 'seed-*'))):
        mp = os.path.join(d, 'meta.json')
        if os.path.exists(mp):
            metas.append(json.load(open(mp)))
    rounds = sorted({m['id'][-1] for m in metas})
    out.append('%d changes from %d rounds (suffix a, b, c, ... = round) written by fresh sub-agents that saw only the property text and a' % (len(metas), len(rounds)))
    out.append('scratch worktree; from round 2 on the authors were also shown the earlier READMEs for their property and asked for a')
    out.append('change different in kind and harder to reach. Every one was confirmed with `vf/seedcheck.py` (builds under the')
    out.append('repository\'s `-Werror` flags, all 293 repository tests pass, the author\'s demonstration fails with the change and passes')
    out.append('without it) and then run against the quick checks. Section 10 lists the changes that were missed by the version of')
    out.append('the checks that existed when they arrived and how the checks were strengthened; the table shows the state of the last')
    out.append('run of each seed against the checks (`meta.json` has the full record, including runs of neighbouring properties).')
    out.append('Changes that turned out to be void (they rely on a defect that has since been repaired, or only manifest outside the')
    out.append('property\'s domain) are kept under `seeded/obsolete/` with the reasoning and are not counted here.')
    out.append('')
    out.append('| id | property | change (as described by its author) | quick check | keys |')
    out.append('|---|---|---|---|---|')
    missed = []
    for m in metas:
        prop = m['breaks']
        desc = ' '.join(m.get('needs_to_manifest', '').split())[:260]
        r = m.get('checks_quick', {}).get(prop, {})
        verdict = 'caught' if r.get('caught') else 'MISSED'
        if not r.get('caught'):
            missed.append(m['id'])
        keys = ', '.join(r.get('keys', [])[:2])[:120]
        others = [p for p, v in m.get('checks_quick', {}).items() if p != prop and v.get('caught')]
        if others:
            verdict += ' (also by ' + ', '.join(others) + ')'
        out.append('| `%s` | %s | %s | %s | `%s` |' % (m['id'], prop, esc(desc), verdict, keys))
    out.append('')
    out.append('Not caught by the check of the property they were written for: %s.' % (', '.join(missed) if missed else 'none'))
    return out


def main():
    p = os.path.join(VERIF, 'DESIGN.md')
    s = open(p).read()
    k = s.index(HEAD)
    body = [HEAD, ''] + mutants() + seeds() + ['']
    open(p, 'w').write(s[:k] + '\n'.join(body))
    print('section 11 regenerated')


if __name__ == '__main__':
    main()
